package check

import (
	"bytes"
	"fmt"
	"go/format"
	"os"
	"os/exec"
	"path/filepath"
	"regexp"
	"sort"
	"strconv"
	"strings"
	"sync"

	"verif/harness/batch"
	"verif/harness/batchrun"
	"verif/harness/gspec"
)

// C04: every accepted grammar yields Go code that compiles, vets and initialises; each
// code block becomes exactly one method that receives exactly the labels in its scope.

var c04FlagNames = []string{"-optimize-parser", "-optimize-grammar", "-optimize-basic-latin", "-support-left-recursion", "-nolint", "-cache"}

func c04Flags(combo int, g *gspec.Grammar) []string {
	var f []string
	for b, name := range c04FlagNames {
		if combo&(1<<b) != 0 {
			f = append(f, name)
		}
	}
	if g.Profile == "leftrec" && !hasStr(f, "-support-left-recursion") {
		f = append(f, "-support-left-recursion")
	}
	if hasStr(f, "-optimize-grammar") {
		f = append(f, "-alternate-entrypoints="+joinComma(g.Entries))
		// documented: -optimize-parser removes the state store "if no state change expression is
		// present in the grammar". When -optimize-grammar drops the only rules that hold state
		// blocks, code blocks that read c.state no longer compile - by that rule, not by a
		// defect: such grammars keep the state store.
		if hasStr(f, "-optimize-parser") && g.HasState && !g.StateReachable(append([]string{g.Rules[0].Name}, g.Entries...)) {
			var k []string
			for _, x := range f {
				if x != "-optimize-parser" {
					k = append(k, x)
				}
			}
			f = k
		}
	}
	return f
}

func hasStr(xs []string, s string) bool {
	for _, x := range xs {
		if x == s {
			return true
		}
	}
	return false
}

// unicodeClassNames reads the class names the front-end accepts from the working tree.
func unicodeClassNames(repo string) []string {
	b, err := os.ReadFile(filepath.Join(repo, "unicode_classes.go"))
	if err != nil {
		return nil
	}
	re := regexp.MustCompile(`(?m)^\s*"([A-Za-z_0-9]+)":\s*true,`)
	var out []string
	for _, m := range re.FindAllStringSubmatch(string(b), -1) {
		out = append(out, m[1])
	}
	sort.Strings(out)
	return out
}

// allClassesGrammar has one single-class rule per accepted Unicode class name.
func allClassesGrammar(names []string) *gspec.Grammar {
	g := &gspec.Grammar{Pkg: "p", Profile: "allclasses"}
	for i, n := range names {
		name := fmt.Sprintf("U%d", i+1)
		g.Rules = append(g.Rules, &gspec.Rule{Name: name, Expr: &gspec.Expr{K: gspec.KClass, UClasses: []string{n}}})
		g.Entries = append(g.Entries, name)
	}
	g.Analyze()
	return g
}

// funcNameCollision models pigeon's naming of code-block methods ("on" + rule name + index
// of the expression in a pre-order walk of the rule, starting at 1) to recognise grammars
// that fall into the recorded finding KF-C04-FUNCNAME.
func funcNameCollision(g *gspec.Grammar) (string, bool) {
	seen := map[string]string{}
	for _, r := range g.Rules {
		idx := 0
		var walk func(e *gspec.Expr) (string, bool)
		walk = func(e *gspec.Expr) (string, bool) {
			idx++
			my := idx
			// an action's own index is taken before its operand is written
			if e.IsCode() {
				name := "on" + r.Name + strconv.Itoa(my)
				if prev, dup := seen[name]; dup && prev != r.Name {
					return name, true
				}
				seen[name] = r.Name
			}
			for _, s := range e.Sub {
				if n, c := walk(s); c {
					return n, true
				}
			}
			return "", false
		}
		if n, c := walk(r.Expr); c {
			return n, true
		}
	}
	return "", false
}

var dupMethodRe = regexp.MustCompile(`method current\.on(\S+) already declared`)

// ambiguousMethodName is the matcher of KF-C04-FUNCNAME on the failure record: the compiler
// reports a method on<X> as declared twice and X splits as <rule name><digits> for two
// different rules of the grammar (e.g. A+"15" and A1+"5").
func ambiguousMethodName(g *gspec.Grammar, compileErr string) bool {
	for _, m := range dupMethodRe.FindAllStringSubmatch(compileErr, -1) {
		splits := 0
		for _, r := range g.Rules {
			if strings.HasPrefix(m[1], r.Name) {
				rest := m[1][len(r.Name):]
				if rest != "" && strings.Trim(rest, "0123456789") == "" {
					splits++
				}
			}
		}
		if splits >= 2 {
			return true
		}
	}
	return false
}

var methodRe = regexp.MustCompile(`(?m)^func \((\S*) ?\*current\) (on\S+)\(([^)]*)\) \(?(any, error|bool, error|error)\)? \{\n\s*return vrt\.(Act|Pred|State)\([^,]+, \S+\.globalStore, (\d+),`)

// checkMethods verifies "exactly one method per code block, receiving exactly the labels
// in its scope" on the generated source.
func checkMethods(src []byte, g *gspec.Grammar, recv string) string {
	want := map[int][]string{}
	for _, r := range g.Rules {
		gspec.Walk(r.Expr, func(e *gspec.Expr) {
			if e.IsCode() {
				want[e.ID] = e.Scope
			}
		})
	}
	got := map[int]int{}
	for _, m := range methodRe.FindAllSubmatch(src, -1) {
		id, _ := strconv.Atoi(string(m[6]))
		got[id]++
		if string(m[1]) != recv {
			return fmt.Sprintf("method %s has receiver %q, want %q", m[2], m[1], recv)
		}
		params := strings.TrimSpace(string(m[3]))
		wantParams := ""
		if len(want[id]) > 0 {
			wantParams = strings.Join(want[id], ", ") + " any"
		}
		if params != wantParams {
			return fmt.Sprintf("method %s (code block %d): parameters (%s), want exactly the labels in scope (%s)", m[2], id, params, wantParams)
		}
	}
	for id := range want {
		if got[id] != 1 {
			return fmt.Sprintf("code block %d became %d methods, want exactly one", id, got[id])
		}
	}
	return ""
}

func c04Post(r *Run, res *batch.Result, ev map[string]any) {
	type item struct {
		g  *batchrun.Group
		pk *batchrun.PkgMeta
	}
	var items []item
	for _, g := range res.Meta.Groups {
		if len(g.Case) > 0 {
			continue
		}
		for i := range g.Pkgs {
			items = append(items, item{g, &g.Pkgs[i]})
		}
	}
	kf := map[string]bool{}
	for _, k := range r.OpenFindings() {
		kf[k] = true
	}
	specOf := func(g *batchrun.Group) *gspec.Grammar {
		b, err := os.ReadFile(filepath.Join(r.Work, g.SpecFile))
		if err != nil {
			return nil
		}
		s, _ := gspec.FromJSON(b)
		return s
	}
	var mu sync.Mutex
	counts := map[string]int{}
	report := func(it item, kind, diff string) {
		mu.Lock()
		defer mu.Unlock()
		counts["violation_"+kind]++
		if counts["reported"] >= 3 {
			return
		}
		counts["reported"]++
		spec := specOf(it.g)
		text := ""
		var sj []byte
		if spec != nil {
			text = gspec.Print(spec, gspec.PrintOpts{StubCode: true, NoInit: true})
			sj = spec.ToJSON()
		}
		r.Logf("violation %s (%s %v): %s\n   grammar:\n%s", kind, it.pk.Name, it.pk.Flags, diff, indent(text))
		r.Violation(&ReplayFile{Property: "C04", Engine: "batch", Kind: kind, RepoHead: repoHead(r.Repo), Seed: r.Opt.Seed, Tier: r.Opt.Tier, Spec: sj, Grammar: text,
			Variants: []batch.Variant{{Name: it.pk.Variant, Flags: stripRecv(it.pk.Flags)}}, Case: []byte(`{"entry":""}`), Diff: diff})
	}
	// 1. refusals of grammars that are valid by construction, compile failures
	for _, it := range items {
		spec := specOf(it.g)
		if it.pk.Refused {
			report(it, "refused", fmt.Sprintf("pigeon refused a well-formed grammar (exit %d): %s", it.pk.Exit, trunc(it.pk.Stderr, 400)))
			continue
		}
		if it.pk.CompileFail {
			if spec != nil && kf["KF-C04-FUNCNAME"] && ambiguousMethodName(spec, it.pk.CompileErr) {
				counts["excluded_KF-C04-FUNCNAME"]++
				continue
			}
			if kf["KF-C04-OPTSCOPE"] && it.pk.OptGrammar && (strings.Contains(it.pk.CompileErr, "duplicate argument") || strings.Contains(it.pk.CompileErr, "redeclared")) {
				counts["excluded_KF-C04-OPTSCOPE"]++
				continue
			}
			report(it, "compile", "the generated parser does not compile: "+trunc(it.pk.CompileErr, 600))
		}
	}
	// 2. formatted, method per code block with the labels in scope
	var live []item
	for _, it := range items {
		if it.pk.Refused || it.pk.CompileFail {
			continue
		}
		live = append(live, it)
		src, err := os.ReadFile(filepath.Join(r.Work, it.pk.Name, "g.go"))
		if err != nil {
			continue
		}
		counts["checked_format"]++
		if f, err := format.Source(src); err != nil || !bytes.Equal(f, src) {
			report(it, "format", "the emitted file is not gofmt-formatted Go")
			continue
		}
		if it.pk.OptGrammar {
			continue // inlining legitimately duplicates blocks and widens scopes
		}
		spec := specOf(it.g)
		if spec == nil {
			continue
		}
		counts["checked_methods"]++
		if d := checkMethods(src, spec, spec.Receiver()); d != "" {
			report(it, "methods", d)
		}
	}
	// 3. go vet
	var wg sync.WaitGroup
	sem := make(chan struct{}, 4)
	for lo := 0; lo < len(live); lo += 12 {
		hi := lo + 12
		if hi > len(live) {
			hi = len(live)
		}
		chunk := live[lo:hi]
		wg.Add(1)
		sem <- struct{}{}
		go func() {
			defer wg.Done()
			defer func() { <-sem }()
			args := []string{"vet"}
			for _, it := range chunk {
				args = append(args, "./"+it.pk.Name)
			}
			cmd := exec.Command("go", args...)
			cmd.Dir = r.Work
			cmd.Env = batch.Env()
			out, err := cmd.CombinedOutput()
			mu.Lock()
			counts["vetted"] += len(chunk)
			mu.Unlock()
			if err == nil {
				return
			}
			for _, it := range chunk {
				var lines []string
				for _, l := range strings.Split(string(out), "\n") {
					if strings.Contains(l, it.pk.Name+"/g.go") || strings.Contains(l, it.pk.Name+string(filepath.Separator)+"g.go") {
						lines = append(lines, l)
					}
				}
				if len(lines) > 0 {
					report(it, "vet", "go vet: "+trunc(strings.Join(lines, "; "), 500))
				}
			}
		}()
	}
	wg.Wait()
	// 4. package initialisation: a panic during init kills every shard at start-up
	for _, cr := range res.Crashes {
		if strings.Contains(cr.Stderr, "init") && strings.Contains(cr.Stderr, "panic") {
			m := regexp.MustCompile(`vwork/(p\d{4})`).FindStringSubmatch(cr.Stderr)
			for _, it := range items {
				if m != nil && it.pk.Name == m[1] {
					report(it, "init_panic", "package initialisation panics: "+lastLines(cr.Stderr, 8))
				}
			}
		}
	}
	delete(counts, "reported")
	ev["c04_static_checks"] = counts
	ex, _ := ev["excluded_known"].(map[string]int)
	if ex == nil {
		ex = map[string]int{}
	}
	for k, v := range counts {
		if strings.HasPrefix(k, "excluded_") {
			ex[strings.TrimPrefix(k, "excluded_")] += v
		}
	}
	ev["excluded_known"] = ex
}

func init() {
	register("C04", func(r *Run) error {
		classes := unicodeClassNames(r.Repo)
		return runB(r, &BSpec{
			ID: "C04", Grammars: [2]int{108, 720}, Cases: [2]int{60, 120},
			Gen: func(r *Run, i int, seed int) *gspec.Grammar {
				switch {
				case i == 0:
					return allClassesGrammar(classes)
				case i%6 == 5:
					return gspec.LRGrammarGen(i%4 == 1).Example(seed)
				}
				prof := []string{"names", "throwrecover", "codeblocks", "stateful", "names"}[i%6]
				return gspec.GrammarGen(gspec.Profile(prof)).Example(seed)
			},
			Tweak: func(i int, g *gspec.Grammar) {
				if i%2 == 1 {
					g.Recv = []string{"p", "cur", "stack", "ctx", "r"}[i/2%5]
				}
			},
			Variants: func(i int, g *gspec.Grammar) []batch.Variant {
				// round-robin over all 64 flag combinations, two per grammar
				a, b := (2*i)%64, (2*i+1)%64
				return []batch.Variant{{Name: fmt.Sprintf("combo%02d", a), Flags: c04Flags(a, g)}, {Name: fmt.Sprintf("combo%02d", b), Flags: c04Flags(b, g)}}
			},
			Post: c04Post, CompileFailIsFailure: true,
			Rule:        "grammars from profiles names (rule names A/A1/A11, Unicode letters, Go keywords and predeclared identifiers, _x; labels cur1/stack2/..), codeblocks, stateful, throwrecover and left-recursive ones, plus one grammar with a rule for EVERY Unicode class name unicode_classes.go accepts; round-robin over all 64 combinations of -optimize-parser -optimize-grammar -optimize-basic-latin -support-left-recursion -nolint -cache (two per grammar) x receiver names {c,p,cur,stack,ctx,r}; validity predicate per generated file: pigeon accepts the grammar, output == gofmt(output), it compiles in the batch, go vet is silent, package init does not panic (the batch binary starts and parses), and - without -optimize-grammar - the methods on *current are exactly one per code block with exactly the labels of its scope as parameters (go source inspection); the parses themselves run the C02 trace comparison (labels received at run time). Non-trivial = >=2 code-block events, one at offset>0; evaluations counts parses; c04_static_checks counts files formatted/vetted/inspected.",
			Assumptions: commonAssumptions,
		})
	})
}
