package check

import (
	"fmt"
)

func init() {
	register("C20", runC20)
	c20a = runC20a
}

// runC20a runs the front-end agreement test (Engine T) and merges its numbers into ev.
func runC20a(r *Run, ev map[string]any) error {
	spec := &TSpec{ID: "C20", Test: "TestC20a", Checks: [2]int{6000, 100000}, Shards: [2]int{16, 16}}
	sub := *r
	sum, err := runTRaw(&sub, spec)
	r.violations = append(r.violations, sub.violations...)
	r.known = append(r.known, sub.known...)
	r.infra = append(r.infra, sub.infra...)
	if err != nil {
		return err
	}
	ev["a_evaluations"] = sum.Evaluations
	ev["a_nontrivial"] = sum.Nontrivial
	ev["a_class_distribution"] = sum.Tags
	ev["samples"] = sum.Samples
	ev["a_rule"] = "grammars of the bootstrap subset (profile bootsub: no recovery/throw, no code predicates or state blocks, code blocks with balanced braces, no comments, rule bodies on one line, rules ended by newline, identifiers outside the reserved words) drawn by rapid and spelled with drawn quotings/escapes/class forms/definition operators; relation: bootstrap.Parser.Parse and the generated front-end (ParseReader) build structurally identical ASTs (rules, expression tree, literal values, labels, code blocks; positions and display-name quoting aside); a grammar both refuse is outside the subset, a grammar only one of them refuses is a violation. Non-trivial = >=3 node kinds."
	return nil
}

// c20a is set by the tool engine (front-end agreement on the bootstrap subset).
var c20a func(r *Run, ev map[string]any) error

func runC20(r *Run) error {
	if r.Opt.Replay != "" && c20a != nil {
		return c20a(r, map[string]any{})
	}
	ev := map[string]any{}
	// part b: regeneration of every checked-in artifact (a finite space, enumerated completely)
	results, err := Regenerate(r.Repo, r.Work)
	if err != nil {
		return err
	}
	diff := 0
	var samples []any
	for _, res := range results {
		if !res.Same {
			diff++
			r.Logf("artifact differs: %s (%s) %s", res.Target, res.Cmd, res.Err)
			r.Violation(map[string]any{"property": "C20", "engine": "regen", "check_kind": "artifact_differs", "target": res.Target, "cmd": res.Cmd, "err": res.Err,
				"diff": "regenerating the artifact from its source with the documented flags does not reproduce the checked-in bytes"})
		}
		if len(samples) < 6 {
			samples = append(samples, res)
		}
	}
	r.Logf("regenerated %d artifacts, %d differ", len(results), diff)
	ev["artifacts_regenerated"] = len(results)
	ev["artifacts_differing"] = diff
	ev["artifact_samples"] = samples
	ev["exhaustive_part_b"] = true
	nA, ntA := 0, 0
	if c20a != nil {
		if err := c20a(r, ev); err != nil {
			return err
		}
		nA, _ = ev["a_evaluations"].(int)
		ntA, _ = ev["a_nontrivial"].(int)
	}
	ev["evaluations"] = len(results) + nA
	ev["distinct_nontrivial"] = len(results) + ntA
	ev["rule"] = "part b: every generation rule of /repo/Makefile (chain artifacts and test/example parsers) is re-run with tools built from the working tree and compared byte for byte with the checked-in file, plus the fixpoint bootstrap-pigeon == pigeon -nolint == pigeon.go; each artifact is a distinct non-trivial case (a full generated parser). part a: " + fmt.Sprint(ev["a_rule"])
	if _, ok := ev["samples"]; !ok {
		ev["samples"] = samples
	}
	return r.WriteEvidence(&Evidence{Coverage: ev, Assumptions: []string{
		"the Makefile is the documentation of the flags per artifact; a small subset of make syntax is interpreted (variables, rules, recipes calling ./bin tools)",
		"tools are built from /repo's working tree with the Go toolchain the repository pins",
	}})
}
