package check

import (
	"encoding/json"
	"fmt"
	"os"
	"path/filepath"
	"time"
	"unicode/utf8"

	"verif/harness/batch"
	"verif/harness/batchrun"
	"verif/harness/gspec"
)

// shrinkReplay minimises a failing case by batch-parallel delta debugging: every round
// proposes structural reductions of the grammar and deletions of input runes, builds all
// of them as one batch, replays the case on each with the known-finding tolerance that
// was in force, and keeps the smallest candidate that still fails with the same check
// kind. It stops at a fixpoint, after maxRounds, or when the time budget is used up.
func shrinkReplay(r *Run, s *BSpec, rf *ReplayFile, maxRounds int, budget time.Duration) *ReplayFile {
	start := time.Now()
	spec, err := gspec.FromJSON(rf.Spec)
	if err != nil {
		return rf
	}
	var cs batchrun.Case
	if json.Unmarshal(rf.Case, &cs) != nil {
		return rf
	}
	keep := []string{cs.Entry}
	if cs.Entry == "" {
		keep = []string{spec.Rules[0].Name}
	}
	for _, j := range cs.Jobs {
		keep = append(keep, j.Entry)
	}
	before := spec.NodeCount()
	rounds := 0
	for ; rounds < maxRounds && time.Since(start) < budget; rounds++ {
		type cand struct {
			g *gspec.Grammar
			c batchrun.Case
		}
		var cands []cand
		for _, g := range gspec.Reductions(spec, keep, 40) {
			cands = append(cands, cand{g, cs})
		}
		// input reductions on the current grammar
		in := cs.Input
		for i, n := 0, 0; i < len(in) && n < 10; n++ {
			_, w := utf8.DecodeRune(in[i:])
			c2 := cs
			c2.Input = append(append([]byte{}, in[:i]...), in[i+w:]...)
			c2.InputText = ""
			cands = append(cands, cand{spec, c2})
			i += w
		}
		if len(cands) == 0 {
			break
		}
		var jobs []batch.Job
		for i, c := range cands {
			cb, _ := json.Marshal(&c.c)
			vs := rf.Variants
			if s.Revariant != nil {
				vs = s.Revariant(c.g, vs)
			}
			jobs = append(jobs, batch.Job{Spec: c.g, Variants: vs, Witness: fmt.Sprintf("cand-%d", i), Case: cb})
		}
		sub := filepath.Join(r.Work, fmt.Sprintf("shrink%d", rounds))
		os.MkdirAll(sub, 0o755)
		os.Link(filepath.Join(r.Work, "pigeon"), filepath.Join(sub, "pigeon"))
		cfg := &batch.Config{Root: r.Root, Repo: r.Repo, Work: sub, Property: s.ID, Tier: r.Opt.Tier, Seed: uint64(r.Opt.Seed), Cases: 1,
			KF: r.OpenFindings(), Jobs: jobs, Race: s.Race, Shards: 1, Replay: true, Timeout: 90 * time.Second, KeepTolerance: true}
		res, err := batch.Run(cfg)
		if os.Getenv("VERIF_KEEP_SHRINK") == "" {
			os.RemoveAll(sub)
		}
		if err != nil {
			r.Logf("shrink round %d: %v", rounds, err)
			break
		}
		best := -1
		bestSize := 1 << 30
		for _, sum := range res.Summaries {
			if sum == nil {
				continue
			}
			for _, w := range sum.WitnessFails {
				if sum.WitnessKinds[w] != rf.Kind {
					continue
				}
				var i int
				fmt.Sscanf(w, "cand-%d", &i)
				size := cands[i].g.NodeCount()*16 + len(cands[i].c.Input)
				if size < bestSize {
					best, bestSize = i, size
				}
			}
		}
		if best < 0 || bestSize >= spec.NodeCount()*16+len(cs.Input) {
			break
		}
		spec, cs = cands[best].g, cands[best].c
	}
	out := *rf
	if s.Revariant != nil {
		out.Variants = s.Revariant(spec, rf.Variants)
	}
	out.Spec = spec.ToJSON()
	out.Grammar = gspec.Print(spec, gspec.PrintOpts{StubCode: true, NoInit: true})
	cs.InputText = fmt.Sprintf("%q", string(cs.Input))
	out.Case, _ = json.Marshal(&cs)
	out.Shrink = map[string]int{"grammar_rounds": rounds, "nodes_before": before, "nodes_after": spec.NodeCount()}
	r.Logf("shrunk in %d rounds (%.1fs): %d -> %d nodes\n%s   case: %s", rounds, time.Since(start).Seconds(), before, spec.NodeCount(), indent(out.Grammar), string(out.Case))
	return &out
}
