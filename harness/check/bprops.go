package check

import (
	"verif/harness/batch"
	"verif/harness/gspec"
)

var commonAssumptions = []string{
	"refpeg (the reference interpreter) implements PEG semantics and pigeon's documented conventions (positions, value shapes, error prefixes) correctly; it shares no code with pigeon; contracts pinned by probes are listed in DESIGN.md section 7",
	"cases touching an open known finding are excluded or tolerated field-wise and counted (excluded_known); the finding's witness is re-run with the tolerance off on every check",
	"bounded search: grammars <= ~60 nodes, inputs <= 48 bytes; it never establishes absence",
}

// plainAndOptimized generates every grammar without and with -optimize-parser, cycling
// the other flags.
func plainAndOptimized(i int, g *gspec.Grammar) []batch.Variant {
	extra := [][]string{nil, {"-optimize-basic-latin"}, {"-nolint"}, {"-support-left-recursion"}}[i%4]
	return []batch.Variant{
		{Name: "standard", Flags: append([]string{}, extra...)},
		{Name: "optimized", Flags: append([]string{"-optimize-parser"}, extra...)},
	}
}

func init() {
	register("C02", func(r *Run) error {
		return runB(r, &BSpec{
			ID: "C02", Profiles: []string{"codeblocks", "codeblocks", "stateful", "utf8"},
			Grammars: [2]int{96, 1600}, Cases: [2]int{500, 1000}, Variants: plainAndOptimized,
			Tweak: func(i int, g *gspec.Grammar) {
				if i%6 == 5 {
					g.Recv = []string{"p", "cur", "ctx"}[i/6%3]
				}
			},
			Rule:        "grammars from profiles codeblocks/stateful/utf8 (labels at every nesting level, actions on sub-expressions, &{} !{} #{} everywhere), generated with and without -optimize-parser; rapid draws (entry, input biased to newlines/multi-byte runes, predicate plan); the complete ordered code-block event trace (kind, id, text, line:col(offset), label values, predicate answers) is compared with the reference trace, including events on abandoned alternatives. Non-trivial = >=2 events, one at offset>0; distinct = distinct (grammar, entry, input, plan).",
			Assumptions: commonAssumptions,
		})
	})
	register("C05", func(r *Run) error {
		return runB(r, &BSpec{
			ID: "C05", Profiles: []string{"stateful"},
			Grammars: [2]int{96, 1600}, Cases: [2]int{500, 1000}, Variants: plainAndOptimized,
			Rule:        "grammars from profile stateful (#{} blocks with scripted ops on shallow ints and an in-place mutated Cloner list, at arbitrary positions: rejected alternatives, failing sequences, & !, repetitions), with and without -optimize-parser; rapid draws (entry, input, InitState seeds, globalStore seed, whether actions/predicates attempt state writes); compared: the c.state and globalStore snapshot seen by every code block against the reference's transactional store, plus the parse value. Non-trivial = >=1 rollback of a non-empty state delta and >=2 events.",
			Assumptions: commonAssumptions,
		})
	})
	register("C11", func(r *Run) error {
		return runB(r, &BSpec{
			ID: "C11", Profiles: []string{"faults", "faults", "stateful"},
			Grammars: [2]int{96, 1600}, Cases: [2]int{500, 1000}, Variants: plainAndOptimized,
			Rule:        "grammars from profile faults (display names on some rules) with fault plans drawn by rapid per case: up to 4 blocks returning errors (unique and repeated messages, n-th invocation or every invocation) or panicking with an error/string, Recover(true|false), file name empty or not; compared: dynamic type of the error (errList of *parserError), Inner identical to the injected value, every message [file:]line:col (off)[: rule NAME]: msg, exact list in order of first occurrence after de-duplication, value returned together with errors, panic -> nil value and last error (Recover) or the same value reaching the caller (Recover(false)). Non-trivial = >=1 fault fired.",
			Assumptions: commonAssumptions,
		})
	})
	register("C12", func(r *Run) error {
		return runB(r, &BSpec{
			ID: "C12", Profiles: []string{"errors"},
			Grammars: [2]int{96, 1600}, Cases: [2]int{600, 1200}, Variants: plainAndOptimized,
			Rule:        "grammars from profile errors (no code blocks, many terminals starting at the same offset on different paths, ! and !! nesting, !.), failing inputs from derivation sampling + edits; compared: exactly one error, its offset/line:col = farthest failing terminal start, message = 'no match found, expected: ' + sorted unique wants with !-prefixed inverted ones and EOF last. Non-trivial = failed parse with offset>0 or >=2 expected or an inverted entry.",
			Assumptions: commonAssumptions,
		})
	})
	register("C14", func(r *Run) error {
		return runB(r, &BSpec{
			ID: "C14", Profiles: []string{"throwrecover"},
			Grammars: [2]int{96, 1600}, Cases: [2]int{500, 1000}, Variants: plainAndOptimized,
			Rule:        "grammars from profile throwrecover (nested recovery operators, several and shared labels, throws in called rules, inside repetitions and predicates, handlers that fail, unhandled labels); compared with the reference's dynamic handler stack: success, consumed prefix, value (recovery expression's value in place of the throw), code-block trace. Non-trivial = >=1 throw handled or a failing handler falling through to an outer one.",
			Assumptions: commonAssumptions,
		})
	})
	register("C17", func(r *Run) error {
		return runB(r, &BSpec{
			ID: "C17", Profiles: []string{"utf8"},
			Grammars: [2]int{96, 1600}, Cases: [2]int{600, 1200}, Variants: plainAndOptimized,
			Rule:        "grammars from profile utf8 (., classes and literals containing U+FFFD, inverted classes, multi-byte runes) and byte strings with truncated sequences, overlongs, surrogates, stray continuation bytes inserted at any rune boundary; both AllowInvalidUTF8 modes; compared with the reference (width-1 U+FFFD decoding): match result, values, action text/pos, and the complete error list ('invalid encoding' at every invalid offset the parse advanced onto, with rule prefix). Non-trivial = >=1 invalid byte advanced onto.",
			Assumptions: commonAssumptions,
		})
	})
}
