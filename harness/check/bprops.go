package check

import (
	"strings"
	"verif/harness/batch"
	"verif/harness/gspec"
)

var commonAssumptions = []string{
	"refpeg (the reference interpreter) implements PEG semantics and pigeon's documented conventions (positions, value shapes, error prefixes) correctly; it shares no code with pigeon; contracts pinned by probes are listed in DESIGN.md section 7",
	"cases touching an open known finding are excluded or tolerated field-wise and counted (excluded_known); the finding's witness is re-run with the tolerance off on every check",
	"bounded search: grammars <= ~60 nodes (one in ten with big entry rules of 66-258 alternatives or items, literals up to 4200 bytes, classes of 70-300 members, chains of 66-130 rules), inputs <= 48 bytes (big rules: up to 9000 bytes; one case in 150: 300-9000 bytes through the Loop entry, 600 for grammars with state); options given in drawn order; it never establishes absence",
}

// withLR mixes left-recursive grammars (every nth) into a profile-driven check.
func withLR(profiles []string, every int, stateful bool) func(r *Run, i int, seed int) *gspec.Grammar {
	return func(r *Run, i int, seed int) *gspec.Grammar {
		if i%every == every-1 {
			return gspec.LRGrammarGen(stateful).Example(seed)
		}
		return gspec.GrammarGen(gspec.Profile(profiles[i%len(profiles)])).Example(seed)
	}
}

// plainAndOptimized generates every grammar without and with -optimize-parser, cycling
// the other flags.
func plainAndOptimized(i int, g *gspec.Grammar) []batch.Variant {
	extra := [][]string{nil, {"-optimize-basic-latin"}, {"-nolint"}, {"-support-left-recursion"}}[i%4]
	if g.Profile == "leftrec" {
		extra = [][]string{{"-support-left-recursion"}, {"-support-left-recursion", "-optimize-basic-latin"}}[i%2]
	}
	return []batch.Variant{
		{Name: "standard", Flags: append([]string{}, extra...)},
		{Name: "optimized", Flags: append([]string{"-optimize-parser"}, extra...)},
	}
}

func init() {
	register("C02", func(r *Run) error {
		return runB(r, &BSpec{
			ID: "C02", Profiles: []string{"codeblocks", "codeblocks", "stateful", "utf8"},
			Grammars: [2]int{192, 1600}, Cases: [2]int{500, 1000}, Variants: plainAndOptimized,
			Tweak: func(i int, g *gspec.Grammar) {
				if i%6 == 5 {
					g.Recv = []string{"p", "cur", "ctx"}[i/6%3]
				}
			},
			Rule:        "grammars from profiles codeblocks/stateful/utf8 (labels at every nesting level, actions on sub-expressions, &{} !{} #{} everywhere), generated with and without -optimize-parser; rapid draws (entry, input biased to newlines/multi-byte runes, predicate plan); the complete ordered code-block event trace (kind, id, text, line:col(offset), label values, predicate answers) is compared with the reference trace, including events on abandoned alternatives. Non-trivial = >=2 events, one at offset>0; distinct = distinct (grammar, entry, input, plan).",
			Assumptions: commonAssumptions,
		})
	})
	register("C05", func(r *Run) error {
		return runB(r, &BSpec{
			ID: "C05", Profiles: []string{"stateful"}, Gen: withLR([]string{"stateful", "stateful", "statefulthrow"}, 4, true),
			Grammars: [2]int{192, 1600}, Cases: [2]int{500, 1000}, Variants: plainAndOptimized,
			Rule:        "grammars from profile stateful (#{} blocks with scripted ops on shallow ints and an in-place mutated Cloner list, at arbitrary positions: rejected alternatives, failing sequences, & !, repetitions), with and without -optimize-parser; rapid draws (entry, input, InitState seeds, globalStore seed, whether actions/predicates attempt state writes); compared: the c.state and globalStore snapshot seen by every code block against the reference's transactional store, plus the parse value. Non-trivial = >=1 rollback of a non-empty state delta and >=2 events.",
			Assumptions: commonAssumptions,
		})
	})
	register("C11", func(r *Run) error {
		return runB(r, &BSpec{
			ID: "C11", Profiles: []string{"faults", "faults", "stateful"}, Gen: withLR([]string{"faults", "faults", "stateful"}, 3, false),
			Grammars: [2]int{192, 1600}, Cases: [2]int{500, 1000}, Variants: plainAndOptimized,
			Rule:        "grammars from profile faults (display names on some rules) with fault plans drawn by rapid per case: up to 4 blocks returning errors (unique and repeated messages, n-th invocation or every invocation) or panicking with an error/string, Recover(true|false), file name empty or not; compared: dynamic type of the error (errList of *parserError), Inner identical to the injected value, every message [file:]line:col (off)[: rule NAME]: msg, exact list in order of first occurrence after de-duplication, value returned together with errors, panic -> nil value and last error (Recover) or the same value reaching the caller (Recover(false)). Non-trivial = >=1 fault fired.",
			Assumptions: commonAssumptions,
		})
	})
	register("C12", func(r *Run) error {
		return runB(r, &BSpec{
			ID: "C12", Profiles: []string{"errors"}, Gen: withLR([]string{"errors"}, 4, false),
			Grammars: [2]int{192, 1600}, Cases: [2]int{600, 1200}, Variants: plainAndOptimized,
			Rule:        "grammars from profile errors (no code blocks, many terminals starting at the same offset on different paths, ! and !! nesting, !.), failing inputs from derivation sampling + edits; compared: exactly one error, its offset/line:col = farthest failing terminal start, message = 'no match found, expected: ' + sorted unique wants with !-prefixed inverted ones and EOF last. Non-trivial = failed parse with offset>0 or >=2 expected or an inverted entry.",
			Assumptions: commonAssumptions,
		})
	})
	register("C14", func(r *Run) error {
		return runB(r, &BSpec{
			ID: "C14", Profiles: []string{"throwrecover", "throwrecover", "statefulthrow"},
			Gen: func(r *Run, i int, seed int) *gspec.Grammar {
				if i%4 == 3 {
					// left-recursive grammars with throw / recover
					return gspec.LRThrowGrammarGen().Example(seed)
				}
				ps := []string{"throwrecover", "throwrecover", "statefulthrow"}
				return gspec.GrammarGen(gspec.Profile(ps[i%len(ps)])).Example(seed)
			},
			Grammars: [2]int{192, 1600}, Cases: [2]int{500, 1000}, Variants: plainAndOptimized,
			Rule:        "grammars from profile throwrecover (nested recovery operators, several and shared labels, throws in called rules, inside repetitions and predicates, handlers that fail, unhandled labels); compared with the reference's dynamic handler stack: success, consumed prefix, value (recovery expression's value in place of the throw), code-block trace. Non-trivial = >=1 throw handled or a failing handler falling through to an outer one.",
			Assumptions: commonAssumptions,
		})
	})
	register("C17", func(r *Run) error {
		return runB(r, &BSpec{
			ID: "C17", Profiles: []string{"utf8"}, Gen: withLR([]string{"utf8"}, 5, false),
			Grammars: [2]int{192, 1600}, Cases: [2]int{600, 1200}, Variants: plainAndOptimized,
			Rule:        "grammars from profile utf8 (., classes and literals containing U+FFFD, inverted classes, multi-byte runes) and byte strings with truncated sequences, overlongs, surrogates, stray continuation bytes inserted at any rune boundary; both AllowInvalidUTF8 modes; compared with the reference (width-1 U+FFFD decoding): match result, values, action text/pos, and the complete error list ('invalid encoding' at every invalid offset the parse advanced onto, with rule prefix). Non-trivial = >=1 invalid byte advanced onto.",
			Assumptions: commonAssumptions,
		})
	})
}

// c09Variants: the pair (U, O = U + -optimize-grammar); every 4th grammar names its protected
// rules with the flag given twice (the flag accumulates).
func c09Variants(i int, g *gspec.Grammar) []batch.Variant {
	names := g.Entries
	if i%2 == 1 && len(names) > 1 && names[0] == g.Rules[0].Name {
		// the first rule is an entry point whether it is named or not
		names = names[1:]
	}
	alt := []string{"-alternate-entrypoints=" + joinComma(names)}
	if i%4 == 3 && len(names) >= 2 {
		h := len(names) / 2
		alt = []string{"-alternate-entrypoints=" + joinComma(names[:h]), "-alternate-entrypoints=" + joinComma(names[h:])}
	}
	if i%5 == 2 {
		// both with -optimize-basic-latin: whatever the builder derives from a class must be
		// derived from the class the optimizer leaves behind
		alt = append(alt, "-optimize-basic-latin")
	}
	return []batch.Variant{{Name: "U", Flags: append([]string{}, alt...)}, {Name: "O", Flags: append([]string{"-optimize-grammar"}, alt...)}}
}

func standardOnly(i int, g *gspec.Grammar) []batch.Variant {
	extra := [][]string{nil, {"-optimize-basic-latin"}, {"-nolint"}, {"-support-left-recursion"}}[i%4]
	if g.Profile == "leftrec" {
		extra = []string{"-support-left-recursion"}
	}
	return []batch.Variant{{Name: "standard", Flags: append([]string{}, extra...)}}
}

func init() {
	register("C06", func(r *Run) error {
		return runB(r, &BSpec{
			ID: "C06", Profiles: []string{"memo", "memo", "codeblocks"}, Gen: withLR([]string{"memo", "memo", "codeblocks"}, 3, false),
			Grammars: [2]int{192, 1600}, Cases: [2]int{400, 800}, Variants: standardOnly,
			Rule:        "grammars from profiles memo/codeblocks (pure code blocks: actions return a function of text/pos/labels, predicates a function of id and labels, faults fire on every invocation; no state blocks, no throw/recover; shared sub-rules reached from several alternatives), non-optimized parsers; rapid draws (entry, input, plan, a non-default combination of Memoize/Debug/Statistics); metamorphic relation: same success, value and code-block errors as the default-option run (which is itself tied to the reference); with Memoize: Stats.ExprCnt <= grammar expressions x (len+1) and no action runs twice at one offset; Stats.ExprCnt of the plain run equals the reference's evaluation count. Non-trivial = Memoize run with >=1 memo hit (ExprCnt lower than the plain run) or another option on a case with code-block events.",
			Assumptions: commonAssumptions,
		})
	})
	register("C16", func(r *Run) error {
		return runB(r, &BSpec{
			ID: "C16", Profiles: []string{"diverging", "codeblocks", "stateful", "core"}, Gen: withLR([]string{"diverging", "codeblocks", "diverging", "stateful", "core"}, 6, false),
			Grammars: [2]int{192, 1600}, Cases: [2]int{400, 800}, Variants: plainAndOptimized,
			Rule:        "grammars from profiles diverging (repetitions over bodies that can succeed without consuming: (e?)*, (&e)+, (!.)*) and codeblocks/core; rapid draws (entry, input, Memoize/Debug/Statistics/AllowInvalidUTF8, a budget n relative to the need N of the unbounded parse: 1, N-1, N, N+1, N/2, a fraction, 2N+7; fixed budgets for diverging cases); relations: the call returns (watchdog 20 s); n>=N => result identical to the unbounded parse; n<N or diverging => nil value and the 'max number of expressions parsed' error last; code-block events <= n and Stats.ExprCnt <= n+1; without Memoize the complete error list equals the reference's run under the same budget and Stats.ExprCnt of the unbounded run equals the reference count. Non-trivial = n<N or a diverging case.",
			Assumptions: commonAssumptions,
		})
	})
}

func init() {
	register("C10", func(r *Run) error {
		return runB(r, &BSpec{
			ID: "C10", Profiles: []string{"codeblocks", "stateful", "faults", "throwrecover", "statefulthrow", "utf8"},
			Gen:      withLR([]string{"codeblocks", "stateful", "faults", "throwrecover", "statefulthrow", "utf8"}, 4, true),
			Grammars: [2]int{192, 1600}, Cases: [2]int{500, 1000},
			Variants: func(i int, g *gspec.Grammar) []batch.Variant {
				x := [][]string{nil, {"-optimize-basic-latin"}, {"-nolint"}, {"-support-left-recursion"}, {"-optimize-basic-latin", "-nolint"}, {"-support-left-recursion", "-optimize-basic-latin"}}[i%6]
				if g.Profile == "leftrec" {
					x = [][]string{{"-support-left-recursion"}, {"-support-left-recursion", "-nolint"}}[i%2]
				}
				return []batch.Variant{{Name: "X", Flags: append([]string{}, x...)}, {Name: "X+optimize-parser", Flags: append([]string{"-optimize-parser"}, x...)}}
			},
			Rule:        "grammars from the union of the profiles codeblocks/stateful/faults/throwrecover/utf8, each generated as the pair (X, X + -optimize-parser) with X cycling over the other flags; rapid draws (entry, input incl. invalid UTF-8, fault plan with errors and panics, InitState seeds, state writes from actions); relation: identical value, identical err.Error() text (whole list), identical panic behaviour and identical code-block event traces including the state/globalStore snapshots under default runtime options. Non-trivial = >=1 code-block event or >=1 error.",
			Assumptions: append([]string{"differential: both parsers come from the same pigeon build; defects common to both are other properties' subject"}, commonAssumptions...),
		})
	})
	register("C09", func(r *Run) error {
		return runB(r, &BSpec{
			ID: "C09", Profiles: []string{"optbait", "optbait", "codeblocks", "throwrecover"},
			Grammars: [2]int{288, 2400}, Cases: [2]int{500, 1000},
			Variants: func(i int, g *gspec.Grammar) []batch.Variant {
				// Tweak already restricted g.Entries to the protected subset of this grammar
				return c09Variants(i, g)
			},
			Tweak: func(i int, g *gspec.Grammar) {
				// only protected rules are entry points of the optimized parser
				ents := g.Entries
				switch i % 3 {
				case 1:
					ents = ents[len(ents)/2:]
				case 2:
					ents = ents[:(len(ents)+1)/2]
				}
				first := g.Rules[0].Name
				keep := []string{}
				seen := map[string]bool{}
				for _, e := range append([]string{first}, ents...) {
					if !seen[e] {
						seen[e] = true
						keep = append(keep, e)
					}
				}
				g.Entries = keep
			},
			Revariant: func(g *gspec.Grammar, old []batch.Variant) []batch.Variant {
				split := 0
				for _, f := range old[len(old)-1].Flags {
					if strings.HasPrefix(f, "-alternate-entrypoints") {
						split++
					}
				}
				// keep what the flag set of the case was made of: the flag given twice, the first
				// rule left out of the list, -optimize-basic-latin on both sides
				last := old[len(old)-1].Flags
				latin, omit := false, len(g.Rules) > 0
				for _, f := range last {
					latin = latin || f == "-optimize-basic-latin"
					if strings.HasPrefix(f, "-alternate-entrypoints=") {
						for _, n := range strings.Split(strings.TrimPrefix(f, "-alternate-entrypoints="), ",") {
							if len(g.Rules) > 0 && n == g.Rules[0].Name {
								omit = false
							}
						}
					}
				}
				for i := 0; i < 20; i++ {
					if (i%4 == 3) == (split > 1) && (i%5 == 2) == latin && ((i%2 == 1) == omit || split > 1) {
						return c09Variants(i, g)
					}
				}
				return c09Variants(0, g)
			},
			Rule:        "grammars from profile optbait (leaf rules referenced from several places, nested choices and sequences, adjacent literals, single-rune literal alternatives next to classes with/without i and ^, predicates, actions, labels on rule references) generated without (U) and with (O) -optimize-grammar, with different subsets of rules as -alternate-entrypoints; rapid draws (protected entry, input); relation: same success/failure, same consumed prefix, same ordered action trace (id, text, pos), final value equal in the normal form that flattens action-less nesting, drops nils and concatenates adjacent byte runs; U is additionally compared with the reference interpreter. Non-trivial = >=1 action ran and >=2 terminal attempts.",
			Assumptions: commonAssumptions,
		})
	})
	register("C15", func(r *Run) error {
		return runB(r, &BSpec{
			ID: "C15", Grammars: [2]int{96, 600}, Cases: [2]int{60, 120},
			Gen: func(r *Run, i int, seed int) *gspec.Grammar {
				n := 40
				if i%4 == 3 {
					// more classes than fit a table, a bit set or a counter sized for "a few dozen"
					n = []int{72, 136, 264}[i/4%3]
				}
				return gspec.ClassGrammarGen(n).Example(seed)
			},
			Variants: func(i int, g *gspec.Grammar) []batch.Variant {
				x := [][]string{nil, {"-optimize-parser"}}[i%2]
				return []batch.Variant{{Name: "general", Flags: append([]string{}, x...)}, {Name: "basic-latin", Flags: append([]string{"-optimize-basic-latin"}, x...)}}
			},
			Rule:        "grammars of 40 (every fourth: 72, 136 or 264) single-class entry rules drawn by rapid (one class in twenty with 66-258 members; any mix of characters, ranges - also straddling case boundaries or descending -, Unicode classes, ^, i), generated without and with -optimize-basic-latin; per drawn class ALL 128 Basic Latin runes (exhaustive), 64 fixed + 4 drawn non-ASCII runes, the non-ASCII members, range ends and neighbours of the class itself (up to 160), the empty input and 5 invalid byte sequences are parsed by both parsers (AllowInvalidUTF8); relation: identical match/no-match and value; both are also compared with the definition of class membership. Non-trivial = class with >=2 member kinds or a flag; evaluations counts single parses.",
			Assumptions: append([]string{"exhaustive only over the 128 Basic Latin runes of every drawn class; classes themselves are sampled"}, commonAssumptions...),
		})
	})
}

func joinComma(s []string) string {
	out := ""
	for i, x := range s {
		if i > 0 {
			out += ","
		}
		out += x
	}
	return out
}

func lrVariants(i int, g *gspec.Grammar) []batch.Variant {
	extra := [][]string{nil, {"-optimize-basic-latin"}, {"-nolint"}}[i%3]
	return []batch.Variant{
		{Name: "standard", Flags: append([]string{"-support-left-recursion"}, extra...)},
		{Name: "optimized", Flags: append([]string{"-support-left-recursion", "-optimize-parser"}, extra...)},
	}
}

func init() {
	register("C08", func(r *Run) error {
		return runB(r, &BSpec{
			ID: "C08", Grammars: [2]int{144, 1600}, Cases: [2]int{500, 1000}, Variants: lrVariants,
			Gen:         func(r *Run, i int, seed int) *gspec.Grammar { return gspec.LRGrammarGen(i%3 == 2).Example(seed) },
			Rule:        "grammars built from 1-3 nested directly left-recursive rules Li <- Li t1 / .. / Li tn / b1 / .. / bm (tails non-nullable; operands: next level, helper rules with arbitrary non-LR expressions, parenthesised top level; labels, actions, code predicates, state blocks in a third of the grammars), 30% of the levels through one other rule (Li <- Vi t / b ; Vi <- Li u), generated with -support-left-recursion with and without -optimize-parser; rapid draws (entry, input from sampling the denotation + edits, plan with error-returning blocks, InitState); the reference evaluates each LR rule by its denotation (ordered choice of the bases, greedy loop over the ordered choice of the tails, recursive reference = result so far); compared: termination, success, consumed prefix, left-nested value for plain, Memoize and optimized parsers; when the denotation invokes every LR rule at most once per offset also the error list and the state seen by every code block (nothing of the final non-extending attempt retained). Non-trivial = >=2 growth iterations.",
			Assumptions: commonAssumptions,
		})
	})
}

func init() {
	register("C18", func(r *Run) error {
		return runB(r, &BSpec{
			ID: "C18", Race: true, Grammars: [2]int{96, 480}, Cases: [2]int{80, 120},
			Gen: func(r *Run, i int, seed int) *gspec.Grammar {
				switch i % 6 {
				case 0, 1:
					return gspec.GrammarGen(gspec.Profile("stateful")).Example(seed)
				case 2:
					return gspec.GrammarGen(gspec.Profile("memo")).Example(seed)
				case 3:
					return gspec.GrammarGen(gspec.Profile("throwrecover")).Example(seed)
				case 4:
					return gspec.GrammarGen(gspec.Profile("utf8")).Example(seed)
				}
				return gspec.LRGrammarGen(true).Example(seed)
			},
			Variants:    plainAndOptimized,
			Rule:        "stateful, memoizing, throw/recover, utf8 and left-recursive grammars (the concurrent calls of a case come BEFORE the sequential ones that compute the expected results: the first calls a process makes into a parser package are concurrent ones), parsers built with the race detector (-race, GORACE=halt_on_error=1); rapid draws per case 2-32 jobs (entry, input, Memoize/Statistics, InitState seeds incl. a Cloner list, plan) and GOMAXPROCS in {2,4,16}; every job is first run alone, then all jobs are started together from a barrier; oracle: each concurrent result (value, error text, complete code-block trace incl. state and globalStore snapshots) equals the result of the same job run alone, and the race detector stays silent (any report is a violation). Non-trivial = a case in which the execution windows of at least two jobs overlapped (measured).",
			Assumptions: append([]string{"interleavings are sampled by stress under the race detector, not enumerated: a race that needs a rare schedule can be missed"}, commonAssumptions...),
		})
	})
}
