package check

import (
	"bytes"
	"context"
	"encoding/json"
	"os"
	"os/exec"
	"path/filepath"
	"strings"
	"time"
	"verif/harness/batch"
	"verif/harness/gspec"
)

var toolAssumptions = []string{
	"main(), the front-end, the optimizer and the builder are driven in-process from a copy of /repo's package main taken at check time; os.Args/os.Stdin/os.Stdout/os.Stderr and the package's exit hook are redirected",
	"bounded search; native fuzz campaigns (thorough tier) are not seed-reproducible, their crashers are",
}

// confirmHang re-runs a C13 case through the real command with a 60 s limit, twice.
func confirmHang(r *Run, caseJSON string) string {
	var c struct {
		Text  []byte `json:"text"`
		Flags struct {
			OptimizeGrammar bool     `json:"optimize_grammar"`
			OptimizeParser  bool     `json:"optimize_parser"`
			BasicLatin      bool     `json:"basic_latin"`
			LeftRec         bool     `json:"support_left_recursion"`
			Nolint          bool     `json:"nolint"`
			Cache           bool     `json:"cache"`
			Recv            string   `json:"recv"`
			AltEntries      []string `json:"alt_entries"`
		} `json:"flags"`
		Extra []string `json:"extra"`
	}
	if json.Unmarshal([]byte(caseJSON), &c) != nil {
		return ""
	}
	var args []string
	add := func(on bool, s string) {
		if on {
			args = append(args, s)
		}
	}
	add(c.Flags.OptimizeGrammar, "-optimize-grammar")
	add(c.Flags.OptimizeParser, "-optimize-parser")
	add(c.Flags.BasicLatin, "-optimize-basic-latin")
	add(c.Flags.LeftRec, "-support-left-recursion")
	add(c.Flags.Nolint, "-nolint")
	add(c.Flags.Cache, "-cache")
	args = append(args, c.Extra...)
	in := filepath.Join(r.Work, "hang.peg")
	os.WriteFile(in, c.Text, 0o644)
	args = append(args, "-o", filepath.Join(r.Work, "hang.go"), in)
	// memory is capped (4 GB of address space): a runaway allocation is reported like a hang
	for i := 0; i < 2; i++ {
		ctx, cancel := context.WithTimeout(context.Background(), 45*time.Second)
		quoted := make([]string, len(args))
		for j, a := range args {
			quoted[j] = "'" + strings.ReplaceAll(a, "'", "'\\''") + "'"
		}
		cmd := exec.CommandContext(ctx, "bash", "-c", "ulimit -v 4000000; exec '"+filepath.Join(r.Work, "pigeon")+"' "+strings.Join(quoted, " "))
		var se bytes.Buffer
		cmd.Stderr = &se
		cmd.Run()
		timedOut := ctx.Err() != nil
		cancel()
		oom := strings.Contains(se.String(), "out of memory") || strings.Contains(se.String(), "cannot allocate memory")
		if !timedOut && !oom {
			return ""
		}
	}
	return "the pigeon command did not terminate within 45 s or exhausted 4 GB of memory (twice)"
}

func init() {
	register("C13", func(r *Run) error {
		return runT(r, &TSpec{
			ID: "C13", Test: "TestC13", Checks: [2]int{4000, 60000}, Shards: [2]int{16, 16}, Fuzz: "FuzzToolTotal", FuzzTime: 150 * time.Second,
			Confirm:     confirmHang,
			Rule:        "grammar texts drawn by rapid: valid grammars of every profile (incl. throw/recover, state blocks, adversarial names), near-valid mutations (range deletions, spliced tokens such as %{ //{ \\p{ quotes and braces, replaced bytes, duplicated rules), tiny hand-picked texts and arbitrary bytes, x every combination of -optimize-grammar -optimize-parser -optimize-basic-latin -support-left-recursion -nolint -cache, -receiver-name (odd values), -alternate-entrypoints (known/unknown rules), -x, -no-recover, input via file or stdin, output via -o or stdout; main() runs in-process; validity predicate: returns or calls exit(n), never an unrecovered panic; n!=0 => diagnostic on stderr without a Go trace; n==0 => no diagnostic was printed and (unless -x) the output parses as Go and contains func Parse(; 20 s limit per case (inconclusive, confirmed through the command with 60 s); every 10th case is also run through the real binary and exit status/output compared. Non-trivial = the text passes the front-end and reaches optimizer or builder with a non-default flag set. Thorough tier adds two native coverage-guided campaigns of FuzzToolTotal (with the repository's .peg files as corpus, and from an empty corpus).",
			Assumptions: toolAssumptions,
		})
	})
}

func init() {
	register("C07", func(r *Run) error {
		// two parts: the static half (which grammars are accepted) through the tool engine,
		// the run-time half (accepted grammars never recurse without bound) through the batch
		// engine. A replay file goes to the engine that wrote it.
		static := &TSpec{
			ID: "C07", Test: "TestC07", Checks: [2]int{16000, 320000}, Shards: [2]int{16, 16},
			Rule:        "arbitrary rule-reference graphs (2-6 rules) drawn by rapid, every reference placed behind a drawn prefix kind (nothing, consuming terminal, [^], x?, x*, empty literal, &x, !x, &{}, #{}, [], nullable rules) and optionally wrapped ((R)? (R)* (R)+ &R !R l:R, inside ( .. R .. )?, inside recovery operators, behind a throw); two-sided oracle with an explicit gap: (R) MUST REJECT when the reference interpreter finds, on a fixed set of short inputs plus sampled derivations, a rule re-entered at an offset at which it is already active (a concrete witness of unbounded recursion) - the in-process build without -support-left-recursion must fail with builder.ErrHaveLeftRecursion; (A) MUST ACCEPT when the over-approximated first-graph (through & ! and recovery expressions, textbook nullability) has no cycle - the build must succeed; grammars in between are counted 'undecided' and never reported; every 40th decided case also goes through the command (exit 5 + diagnostic / exit 0). Non-trivial = the plain reference graph has a cycle.",
			Assumptions: toolAssumptions,
		}
		runtime := &BSpec{
			ID: "C07", Profiles: []string{"core", "utf8", "codeblocks", "throwrecover", "core", "errors"},
			Grammars: [2]int{64, 1200}, Cases: [2]int{300, 800},
			Variants: func(i int, g *gspec.Grammar) []batch.Variant {
				sets := [][]string{{"-optimize-basic-latin"}, {"-optimize-parser"}, {"-optimize-parser", "-optimize-basic-latin"}, {"-nolint", "-optimize-basic-latin"}}
				if g.Profile == "core" || g.Profile == "utf8" || g.Profile == "errors" {
					// (grammars with code blocks stay clear of -optimize-grammar: KF-C04-OPTSCOPE)
					alt := "-alternate-entrypoints=" + joinComma(g.Entries)
					sets = append(sets, []string{"-optimize-grammar", alt}, []string{"-optimize-grammar", "-optimize-basic-latin", "-optimize-parser", alt})
				}
				return []batch.Variant{{Name: "plain"}, {Name: "flags", Flags: sets[i%len(sets)]}}
			},
			Rule:        "grammars drawn by rapid from the profiles core/utf8/codeblocks/throwrecover/errors (well-formed and free of left recursion by construction, recursive through guarded references: a rule may call itself only behind an expression that consumes), each generated by the real pigeon command without -support-left-recursion, plain and under one of six flag sets (-optimize-basic-latin, -optimize-parser, -optimize-grammar and combinations); rapid draws (entry, input from derivation sampling + edits, a third truncated at a drawn rune so that terminals fail at the end of the input); oracle: the reference interpreter needs N expression evaluations on the case, the generated parser runs under MaxExpressions(8N+10000): reaching the limit, a stack exhaustion, a crash or a hang (watchdog) is the violation - every other difference is left to C01. Non-trivial = rule invocations nest >=3 deep and >=3 terminals are attempted.",
			Assumptions: commonAssumptions,
		}
		if r.Opt.Replay != "" {
			if replayEngine(r.Opt.Replay) == "batch" {
				return runB(r, runtime)
			}
			return runT(r, static)
		}
		r.multi = true
		err := runT(r, static)
		if err == nil {
			err = runB(r, runtime)
		}
		if ferr := r.FlushParts([]string{"static (tool engine)", "run time (batch engine)"}); err == nil {
			err = ferr
		}
		return err
	})
	register("C19", func(r *Run) error {
		return runT(r, &TSpec{
			ID: "C19", Test: "TestC19", Checks: [2]int{2400, 40000}, Shards: [2]int{16, 16},
			Rule:        "grammars drawn by rapid: arbitrary reference graphs with several cycles and leader candidates and mutually nullable rules (with and without -support-left-recursion), well-formed left-recursive grammars, optimizer bait, throw/recover, adversarial names, x -optimize-grammar (with alternate entrypoints) / -optimize-parser / -optimize-basic-latin; relation: 12 repeated in-process runs of parse -> optimize -> build -> format (Go randomises every map iteration) give byte-identical output or the identical diagnostic; every 25th case is also generated three times by the real command and compared. Non-trivial = the first-graph has a cycle or -optimize-grammar is on.",
			Assumptions: toolAssumptions,
		})
	})
}

func init() {
	register("C03", func(r *Run) error {
		return runT(r, &TSpec{
			ID: "C03", Test: "TestC03", Checks: [2]int{6000, 100000}, Shards: [2]int{16, 16}, Fuzz: "FuzzFrontRoundTrip", FuzzTime: 150 * time.Second,
			Rule:        "ASTs of all node kinds (profile frontend: recovery/throw, code predicates, state blocks, display names, initializer, adversarial identifiers) drawn by rapid and spelled with rapid-drawn concrete syntax: white space / newline / tab / CRLF / line and block comment placement, the terminators ; newline EOF, the four definition operators, three literal quotings with every escape form (simple, octal, \\x, \\u, \\U, quote escapes), i suffix, classes with interleaved characters / ranges / \\pX / \\p{Name} / escapes / leading ^ and -, code blocks with nested braces, strings, rune literals and comments, minimal or redundant parentheses; oracle (i) construction round trip: the AST the front-end returns equals the drawn AST including the position (line:col(offset)) of the first token of every rule, expression, label, code block and display name; (ii) print round trip: for every accepted text (spelled, mutated-but-accepted, and every .peg file of the repository) parse(print(parse(t))) equals parse(t) up to positions; (iii) every 50th text through main() -x. Non-trivial = >=3 node kinds and >=1 non-default spelling feature. Thorough tier adds native coverage-guided fuzzing of the print round trip.",
			Assumptions: append([]string{"the binding strengths and the meaning of every spelling are taken from doc.go and grammar/pigeon.peg; the speller only produces spellings the documentation defines (between expressions no comment starts with //{ - that is the recovery operator; inside code blocks it is an ordinary comment; no unterminated tokens; a member hyphen is first in its class or escaped)"}, toolAssumptions...),
		})
	})
}
