package check

import (
	"bytes"
	"context"
	"encoding/json"
	"os"
	"os/exec"
	"path/filepath"
	"time"
)

var toolAssumptions = []string{
	"main(), the front-end, the optimizer and the builder are driven in-process from a copy of /repo's package main taken at check time; os.Args/os.Stdin/os.Stdout/os.Stderr and the package's exit hook are redirected",
	"bounded search; native fuzz campaigns (thorough tier) are not seed-reproducible, their crashers are",
}

// confirmHang re-runs a C13 case through the real command with a 60 s limit, twice.
func confirmHang(r *Run, caseJSON string) string {
	var c struct {
		Text  []byte `json:"text"`
		Flags struct {
			OptimizeGrammar bool     `json:"optimize_grammar"`
			OptimizeParser  bool     `json:"optimize_parser"`
			BasicLatin      bool     `json:"basic_latin"`
			LeftRec         bool     `json:"support_left_recursion"`
			Nolint          bool     `json:"nolint"`
			Cache           bool     `json:"cache"`
			Recv            string   `json:"recv"`
			AltEntries      []string `json:"alt_entries"`
		} `json:"flags"`
		Extra []string `json:"extra"`
	}
	if json.Unmarshal([]byte(caseJSON), &c) != nil {
		return ""
	}
	var args []string
	add := func(on bool, s string) {
		if on {
			args = append(args, s)
		}
	}
	add(c.Flags.OptimizeGrammar, "-optimize-grammar")
	add(c.Flags.OptimizeParser, "-optimize-parser")
	add(c.Flags.BasicLatin, "-optimize-basic-latin")
	add(c.Flags.LeftRec, "-support-left-recursion")
	add(c.Flags.Nolint, "-nolint")
	add(c.Flags.Cache, "-cache")
	args = append(args, c.Extra...)
	in := filepath.Join(r.Work, "hang.peg")
	os.WriteFile(in, c.Text, 0o644)
	args = append(args, "-o", filepath.Join(r.Work, "hang.go"), in)
	for i := 0; i < 2; i++ {
		ctx, cancel := context.WithTimeout(context.Background(), 60*time.Second)
		cmd := exec.CommandContext(ctx, filepath.Join(r.Work, "pigeon"), args...)
		var se bytes.Buffer
		cmd.Stderr = &se
		cmd.Run()
		timedOut := ctx.Err() != nil
		cancel()
		if !timedOut {
			return ""
		}
	}
	return "the pigeon command did not terminate within 60 s (twice)"
}

func init() {
	register("C13", func(r *Run) error {
		return runT(r, &TSpec{
			ID: "C13", Test: "TestC13", Checks: [2]int{4000, 60000}, Shards: [2]int{16, 16}, Fuzz: "FuzzToolTotal", FuzzTime: 150 * time.Second,
			Confirm: confirmHang,
			Rule:    "grammar texts drawn by rapid: valid grammars of every profile (incl. throw/recover, state blocks, adversarial names), near-valid mutations (range deletions, spliced tokens such as %{ //{ \\p{ quotes and braces, replaced bytes, duplicated rules), tiny hand-picked texts and arbitrary bytes, x every combination of -optimize-grammar -optimize-parser -optimize-basic-latin -support-left-recursion -nolint -cache, -receiver-name (odd values), -alternate-entrypoints (known/unknown rules), -x, -no-recover, input via file or stdin, output via -o or stdout; main() runs in-process; validity predicate: returns or calls exit(n), never an unrecovered panic; n!=0 => diagnostic on stderr without a Go trace; n==0 => no diagnostic was printed and (unless -x) the output parses as Go and contains func Parse(; 20 s limit per case (inconclusive, confirmed through the command with 60 s); every 10th case is also run through the real binary and exit status/output compared. Non-trivial = the text passes the front-end and reaches optimizer or builder with a non-default flag set. Thorough tier adds two native coverage-guided campaigns of FuzzToolTotal (with the repository's .peg files as corpus, and from an empty corpus).",
			Assumptions: toolAssumptions,
		})
	})
}
