package check

import (
	"bytes"
	"context"
	"fmt"
	"os"
	"os/exec"
	"path/filepath"
	"regexp"
	"sort"
	"strings"
	"sync"
	"time"

	"verif/harness/batch"
)

// Engine R: regeneration of every checked-in generated artifact with the tools built
// from the working tree and the flags the Makefile documents.

// MakeRule is one generation rule of the Makefile.
type MakeRule struct {
	Target string
	Source string   // $<
	Tool   string   // pigeon | bootstrap-pigeon | bootstrap-build | static_code_generator
	Args   []string // arguments with $< and $@ still symbolic
	Stdout bool     // output via "> $@"
	Line   string
}

var makeVarRe = regexp.MustCompile(`\$\(([A-Za-z_]+)\)`)

func expandMake(s string, vars map[string]string) string {
	for i := 0; i < 10 && strings.Contains(s, "$("); i++ {
		s = makeVarRe.ReplaceAllStringFunc(s, func(m string) string {
			name := makeVarRe.FindStringSubmatch(m)[1]
			if v, ok := vars[name]; ok {
				return v
			}
			return m
		})
	}
	return s
}

// ParseMakefile extracts the generation rules (a deliberately small subset of make: simple
// variables, rules with continuation lines, recipes that call a tool from $(BINDIR)).
func ParseMakefile(path string) ([]MakeRule, error) {
	b, err := os.ReadFile(path)
	if err != nil {
		return nil, err
	}
	text := strings.ReplaceAll(string(b), "\\\n", " ")
	vars := map[string]string{}
	var rules []MakeRule
	var curTarget, curDeps string
	assign := regexp.MustCompile(`^([A-Za-z_]+)\s*=\s*(.*)$`)
	ruleRe := regexp.MustCompile(`^(\S[^:=]*):\s*(.*)$`)
	for _, line := range strings.Split(text, "\n") {
		if strings.HasPrefix(line, "#") {
			continue
		}
		if strings.HasPrefix(line, "\t") {
			rec := strings.TrimSpace(line)
			if curTarget == "" || strings.HasPrefix(rec, "@") || strings.HasPrefix(rec, "go build") {
				continue
			}
			rec = expandMake(rec, vars)
			f := strings.Fields(rec)
			if len(f) == 0 || !strings.HasPrefix(f[0], "./bin/") {
				continue
			}
			r := MakeRule{Target: filepath.Clean(curTarget), Tool: strings.TrimPrefix(f[0], "./bin/"), Line: rec}
			deps := strings.Fields(curDeps)
			if len(deps) > 0 {
				r.Source = filepath.Clean(deps[0])
			}
			args := f[1:]
			for i := 0; i < len(args); i++ {
				if args[i] == ">" && i+1 < len(args) && args[i+1] == "$@" {
					r.Stdout = true
					args = args[:i]
					break
				}
			}
			r.Args = args
			rules = append(rules, r)
			continue
		}
		if m := assign.FindStringSubmatch(line); m != nil && !strings.Contains(m[1], " ") {
			vars[m[1]] = expandMake(strings.TrimSpace(m[2]), vars)
			continue
		}
		if m := ruleRe.FindStringSubmatch(line); m != nil {
			curTarget = expandMake(strings.TrimSpace(m[1]), vars)
			curDeps = expandMake(m[2], vars)
			continue
		}
		if strings.TrimSpace(line) == "" {
			curTarget = ""
		}
	}
	return rules, nil
}

// RegenResult describes one regenerated artifact.
type RegenResult struct {
	Target string `json:"target"`
	Cmd    string `json:"cmd"`
	Same   bool   `json:"same"`
	Err    string `json:"err,omitempty"`
	Bytes  int    `json:"bytes"`
}

// buildTool builds one of the repository's commands from the working tree.
func buildTool(repo, pkg, out string) error {
	cmd := exec.Command("go", "build", "-o", out, pkg)
	cmd.Dir = repo
	cmd.Env = batch.RepoEnv()
	if b, err := cmd.CombinedOutput(); err != nil {
		return fmt.Errorf("go build %s: %v\n%s", pkg, err, b)
	}
	return nil
}

// Regenerate rebuilds the chain tools and regenerates every artifact; it returns one
// result per Makefile generation rule.
func Regenerate(repo, work string) ([]RegenResult, error) {
	rules, err := ParseMakefile(filepath.Join(repo, "Makefile"))
	if err != nil {
		return nil, err
	}
	bin := filepath.Join(work, "regen-bin")
	os.MkdirAll(bin, 0o755)
	tools := map[string]string{
		"static_code_generator": "./bootstrap/cmd/static_code_generator",
		"bootstrap-build":       "./bootstrap/cmd/bootstrap-build",
		"bootstrap-pigeon":      "./bootstrap/cmd/bootstrap-pigeon",
		"pigeon":                ".",
	}
	for name, pkg := range tools {
		if err := buildTool(repo, pkg, filepath.Join(bin, name)); err != nil {
			return nil, err
		}
	}
	results := make([]RegenResult, len(rules))
	var wg sync.WaitGroup
	sem := make(chan struct{}, 16)
	for i, rule := range rules {
		wg.Add(1)
		sem <- struct{}{}
		go func(i int, rule MakeRule) {
			defer wg.Done()
			defer func() { <-sem }()
			res := RegenResult{Target: rule.Target, Cmd: rule.Line}
			tool, ok := tools[rule.Tool]
			_ = tool
			if !ok {
				res.Err = "unknown tool " + rule.Tool
				results[i] = res
				return
			}
			outFile := filepath.Join(work, fmt.Sprintf("regen-%03d.out", i))
			var args []string
			for _, a := range rule.Args {
				switch a {
				case "$<":
					a = rule.Source
				case "$@":
					a = outFile
				}
				args = append(args, a)
			}
			ctx, cancel := context.WithTimeout(context.Background(), 120*time.Second)
			defer cancel()
			cmd := exec.CommandContext(ctx, filepath.Join(bin, rule.Tool), args...)
			cmd.Dir = repo
			cmd.Env = append(os.Environ(), "GOFLAGS=-mod=mod", "GOPROXY=off")
			var stdout, stderr bytes.Buffer
			cmd.Stdout = &stdout
			cmd.Stderr = &stderr
			if err := cmd.Run(); err != nil {
				res.Err = fmt.Sprintf("%v: %s", err, trunc(stderr.String(), 500))
				results[i] = res
				return
			}
			got := stdout.Bytes()
			if !rule.Stdout {
				got, _ = os.ReadFile(outFile)
			}
			os.Remove(outFile)
			want, err := os.ReadFile(filepath.Join(repo, rule.Target))
			if err != nil {
				res.Err = err.Error()
			}
			res.Bytes = len(got)
			res.Same = err == nil && bytes.Equal(got, want)
			results[i] = res
		}(i, rule)
	}
	wg.Wait()
	// fixpoint of the chain: the generated front-end is the same through both stages
	boot := exec.Command(filepath.Join(bin, "bootstrap-pigeon"), "grammar/pigeon.peg")
	boot.Dir = repo
	b1, e1 := boot.Output()
	pg := exec.Command(filepath.Join(bin, "pigeon"), "-nolint", "grammar/pigeon.peg")
	pg.Dir = repo
	b2, e2 := pg.Output()
	want, _ := os.ReadFile(filepath.Join(repo, "pigeon.go"))
	fx := RegenResult{Target: "pigeon.go (fixpoint: bootstrap-pigeon == pigeon -nolint == checked-in)", Cmd: "bootstrap-pigeon grammar/pigeon.peg ; pigeon -nolint grammar/pigeon.peg", Bytes: len(b2)}
	if e1 != nil || e2 != nil {
		fx.Err = fmt.Sprint(e1, e2)
	}
	fx.Same = e1 == nil && e2 == nil && bytes.Equal(b1, want) && bytes.Equal(b2, want)
	results = append(results, fx)
	sort.SliceStable(results, func(i, j int) bool { return results[i].Target < results[j].Target })
	os.RemoveAll(bin)
	return results, nil
}

func trunc(s string, n int) string {
	if len(s) <= n {
		return s
	}
	return s[:n] + "…"
}
