package check

import (
	"bytes"
	"context"
	"encoding/json"
	"fmt"
	"io"
	"os"
	"os/exec"
	"path/filepath"
	"sort"
	"strings"
	"sync"
	"time"

	"verif/harness/batch"
)

// TSpec configures an Engine T property check (rapid / native fuzz tests compiled with a
// copy of /repo's package main).
type TSpec struct {
	ID          string
	Test        string // Go test function
	Checks      [2]int // rapid checks in total (quick, thorough), split over the shards
	Shards      [2]int
	Fuzz        string        // native fuzz target (thorough tier only)
	FuzzTime    time.Duration // per campaign
	Rule        string
	Assumptions []string
	Env         []string
	// Confirm re-checks an inconclusive (timed out) case outside the test binary; it returns a
	// violation description or "".
	Confirm func(r *Run, caseJSON string) string
}

type tSummary struct {
	Test        string           `json:"test"`
	Evaluations int              `json:"evaluations"`
	Nontrivial  int              `json:"distinct_nontrivial"`
	Tags        map[string]int   `json:"tags"`
	Samples     []map[string]any `json:"samples"`
	Excluded    map[string]int   `json:"excluded_known"`
	Violation   *struct {
		Kind string          `json:"kind"`
		Diff string          `json:"diff"`
		Case json.RawMessage `json:"case"`
	} `json:"violation,omitempty"`
	Inconcl     []string `json:"inconclusive,omitempty"`
	Replayed    []string `json:"replayed,omitempty"`
	ReplayFails []string `json:"replay_fails,omitempty"`
}

func copyFile(src, dst string) error {
	in, err := os.Open(src)
	if err != nil {
		return err
	}
	defer in.Close()
	out, err := os.Create(dst)
	if err != nil {
		return err
	}
	defer out.Close()
	_, err = io.Copy(out, in)
	return err
}

// prepareTool builds the tool test binary from /repo's working tree.
func prepareTool(r *Run) (dir, bin string, err error) {
	dir = filepath.Join(r.Work, "pmain")
	if err = os.MkdirAll(dir, 0o755); err != nil {
		return
	}
	roots, _ := filepath.Glob(filepath.Join(r.Repo, "*.go"))
	for _, f := range roots {
		if strings.HasSuffix(f, "_test.go") {
			continue
		}
		if err = copyFile(f, filepath.Join(dir, filepath.Base(f))); err != nil {
			return
		}
	}
	tools, _ := filepath.Glob(filepath.Join(r.Root, "harness", "tool", "vt_*_test.go"))
	for _, f := range tools {
		if err = copyFile(f, filepath.Join(dir, filepath.Base(f))); err != nil {
			return
		}
	}
	gomod := fmt.Sprintf("module vtool\n\ngo 1.25.0\n\nrequire (\n\tgithub.com/mna/pigeon v0.0.0\n\tverif/harness v0.0.0\n\tpgregory.net/rapid v1.3.0\n\tgolang.org/x/tools v0.45.0\n)\n\nreplace github.com/mna/pigeon => %s\n\nreplace verif/harness => %s\n",
		r.Repo, filepath.Join(r.Root, "harness"))
	os.WriteFile(filepath.Join(dir, "go.mod"), []byte(gomod), 0o644)
	if b, e := os.ReadFile(filepath.Join(r.Root, "harness", "go.sum")); e == nil {
		os.WriteFile(filepath.Join(dir, "go.sum"), b, 0o644)
	}
	bin = filepath.Join(r.Work, "tool.test")
	cmd := exec.Command("go", "test", "-c", "-tags", "vtool", "-o", bin, ".")
	cmd.Dir = dir
	cmd.Env = batch.Env()
	if out, e := cmd.CombinedOutput(); e != nil {
		err = fmt.Errorf("building the tool test binary: %v\n%s", e, trunc(string(out), 4000))
	}
	return
}

func runT(r *Run, s *TSpec) error {
	tot, err := runTRaw(r, s)
	if err != nil || tot == nil {
		return err
	}
	ev := map[string]any{
		"evaluations":         tot.Evaluations,
		"distinct_nontrivial": tot.Nontrivial,
		"rule":                s.Rule,
		"samples":             tot.Samples,
		"class_distribution":  tot.Tags,
		"excluded_known":      tot.Excluded,
		"replays_run":         len(tot.Replayed),
		"native_fuzz_runs":    tot.Evaluations - tot.Evaluations + len(tot.Inconcl),
		"exhaustive":          false,
	}
	delete(ev, "native_fuzz_runs")
	if err := r.WriteEvidence(&Evidence{Coverage: ev, Assumptions: s.Assumptions}); err != nil {
		return err
	}
	if tot.Nontrivial < 2 && len(r.violations) == 0 {
		r.Infra("only %d non-trivial cases were explored", tot.Nontrivial)
	}
	return nil
}

// runTRaw runs the test shards and returns the aggregated summary (nil in replay mode).
func runTRaw(r *Run, s *TSpec) (*tSummary, error) {
	ti := tierIdx(r)
	_, bin, err := prepareTool(r)
	if err != nil {
		return nil, err
	}
	pigeon := filepath.Join(r.Work, "pigeon")
	if err := batch.BuildPigeon(r.Repo, pigeon); err != nil {
		return nil, err
	}
	shards := s.Shards[ti]
	if shards <= 0 {
		shards = 8
	}
	checks := s.Checks[ti]
	if r.Opt.Cases > 0 {
		checks = r.Opt.Cases
	}
	replayDir := filepath.Join(r.Root, "replays", s.ID)
	replayOnly := r.Opt.Replay != ""
	if replayOnly {
		replayDir, _ = filepath.Abs(r.Opt.Replay)
		shards = 1
	}
	tmp := filepath.Join(r.Work, "ttmp")
	os.MkdirAll(tmp, 0o755)
	sums := make([]*tSummary, shards)
	logs := make([]string, shards)
	failed := make([]bool, shards)
	var wg sync.WaitGroup
	limit := 10 * time.Minute
	if !r.Quick() {
		limit = 45 * time.Minute
	}
	// saved replays and witnesses: a process of their own (a replay that runs into the time
	// limit ends its process, the remaining files go to the next one)
	var replaySums []*tSummary
	{
		var pending []string
		if st, err := os.Stat(replayDir); err == nil && !st.IsDir() {
			pending = []string{replayDir}
		} else {
			all, _ := filepath.Glob(filepath.Join(replayDir, "*.json"))
			sort.Strings(all)
			for _, f := range all {
				if replayEngine(f) != "batch" {
					pending = append(pending, f)
				}
			}
		}
		for round := 0; len(pending) > 0 && round < 40; round++ {
			out := filepath.Join(r.Work, fmt.Sprintf("tsum-replay-%d.json", round))
			ctx, cancel := context.WithTimeout(context.Background(), 5*time.Minute)
			cmd := exec.CommandContext(ctx, bin, "-test.run", "^"+s.Test+"$", "-test.timeout", "0", "-test.count", "1")
			cmd.Dir = filepath.Join(r.Work, "pmain")
			env := append(batch.Env(), "VTOOL_OUT="+out, "VTOOL_TMP="+tmp, "VTOOL_KF="+strings.Join(r.OpenFindings(), ","), "VTOOL_PIGEON="+pigeon,
				"VTOOL_REPO="+r.Repo, "VTOOL_TIER="+r.Opt.Tier, "VTOOL_REPLAYS="+strings.Join(pending, string(os.PathListSeparator)), "VTOOL_REPLAY_ONLY=1")
			cmd.Env = append(env, s.Env...)
			cmd.Run()
			cancel()
			b, e := os.ReadFile(out)
			var sum tSummary
			if e != nil || json.Unmarshal(b, &sum) != nil || len(sum.Replayed) == 0 {
				r.Infra("the replay process produced no result for %d saved replays", len(pending))
				break
			}
			replaySums = append(replaySums, &sum)
			done := map[string]bool{}
			for _, f := range sum.Replayed {
				done[f] = true
			}
			var rest []string
			for _, f := range pending {
				if !done[f] {
					rest = append(rest, f)
				}
			}
			pending = rest
		}
	}
	if replayOnly {
		shards = 0
		sums, logs = nil, nil
	}
	for i := 0; i < shards; i++ {
		wg.Add(1)
		go func(i int) {
			defer wg.Done()
			out := filepath.Join(r.Work, fmt.Sprintf("tsum-%d.json", i))
			ctx, cancel := context.WithTimeout(context.Background(), limit)
			defer cancel()
			per := (checks + shards - 1) / shards
			cmd := exec.CommandContext(ctx, bin, "-test.run", "^"+s.Test+"$", "-test.timeout", "0", "-test.count", "1",
				fmt.Sprintf("-rapid.checks=%d", per), fmt.Sprintf("-rapid.seed=%d", uint64(r.Opt.Seed)*7919+uint64(i)*104729+1), "-rapid.nofailfile", "-rapid.shrinktime=20s")
			cmd.Dir = filepath.Join(r.Work, "pmain")
			env := append(batch.Env(), "VTOOL_OUT="+out, "VTOOL_TMP="+tmp, "VTOOL_KF="+strings.Join(r.OpenFindings(), ","), "VTOOL_PIGEON="+pigeon,
				"VTOOL_REPO="+r.Repo, "VTOOL_TIER="+r.Opt.Tier, fmt.Sprintf("VTOOL_SHARD=%d", i))
			_ = replayDir
			cmd.Env = append(env, s.Env...)
			var buf bytes.Buffer
			cmd.Stdout, cmd.Stderr = &buf, &buf
			runErr := cmd.Run()
			logs[i] = buf.String()
			failed[i] = runErr != nil
			b, e := os.ReadFile(out)
			if e != nil {
				logs[i] += fmt.Sprintf("\n(no summary; %v)", runErr)
				return
			}
			var sum tSummary
			if json.Unmarshal(b, &sum) == nil {
				sums[i] = &sum
			}
		}(i)
	}
	wg.Wait()

	tot := tSummary{Tags: map[string]int{}, Excluded: map[string]int{}}
	witnessOf := map[string]Finding{}
	for _, f := range r.FindingsOf(s.ID) {
		if f.Witness != "" {
			witnessOf[filepath.Join(r.Root, f.Witness)] = f
		}
	}
	for _, rs := range replaySums {
		sums = append(sums, rs)
	}
	for i, sum := range sums {
		if sum == nil {
			r.Logf("shard %d produced no summary:\n%s", i, lastLines(logs[i], 30))
			r.Infra("tool shard %d produced no summary", i)
			continue
		}
		if i < len(failed) && failed[i] && sum.Violation == nil && len(sum.Inconcl) == 0 && len(sum.ReplayFails) == 0 {
			// the test binary failed but the check recorded nothing: a panic or an assertion inside
			// the harness itself. Never a verdict about the property - and never silent.
			r.Logf("shard %d failed without recording a violation (harness problem):\n%s", i, lastLines(filterDraws(logs[i]), 40))
			r.Infra("tool shard %d failed without recording a violation (harness problem)", i)
		}
		tot.Evaluations += sum.Evaluations
		tot.Nontrivial += sum.Nontrivial
		for k, v := range sum.Tags {
			tot.Tags[k] += v
		}
		for k, v := range sum.Excluded {
			tot.Excluded[k] += v
		}
		tot.Samples = append(tot.Samples, sum.Samples...)
		tot.Replayed = append(tot.Replayed, sum.Replayed...)
		for _, f := range sum.ReplayFails {
			abs, _ := filepath.Abs(f)
			if kf, ok := witnessOf[abs]; ok && kf.Status == "open" && !replayOnly {
				r.Known(kf)
			} else {
				r.Logf("saved replay still fails: %s", f)
				r.ViolationAt(f)
			}
		}
		if sum.Violation != nil {
			r.Logf("violation %s: %s\n   case: %s", sum.Violation.Kind, sum.Violation.Diff, trunc(string(sum.Violation.Case), 1500))
			if len(r.violations) < 3 {
				r.Violation(map[string]any{"property": s.ID, "engine": "tool", "check_kind": sum.Violation.Kind, "repo_head": repoHead(r.Repo),
					"seed": r.Opt.Seed, "tier": r.Opt.Tier, "case": sum.Violation.Case, "diff": sum.Violation.Diff})
			}
		}
		for _, c := range sum.Inconcl {
			// a case that ran into the in-process time limit is decided by the real command with a
			// generous limit: a hang there (twice) is a violation; if the command terminates, the
			// in-process time-out was load on the machine and says nothing about the property
			if s.Confirm != nil && len(r.violations) >= 2 {
				continue // enough confirmed cases; every further confirmation costs up to 90 s
			}
			if s.Confirm != nil {
				if d := s.Confirm(r, c); d != "" {
					r.Violation(map[string]any{"property": s.ID, "engine": "exec", "check_kind": "hang", "case": json.RawMessage(c), "diff": d})
					continue
				}
				tot.Tags["inprocess_timeout_not_confirmed_by_command"]++
				r.Logf("note: a case exceeded the in-process time limit; the command terminated normally on it (machine load)")
				continue
			}
			r.Infra("a case exceeded the in-process time limit and cannot be confirmed")
		}
	}
	if replayOnly {
		return nil, nil
	}

	// native coverage-guided fuzzing (thorough tier): crashers become replay files
	if s.Fuzz != "" && !r.Quick() {
		tot.Tags["native_fuzz_campaigns"] = runNativeFuzz(r, s, pigeon)
	}
	sort.SliceStable(tot.Samples, func(i, j int) bool { return fmt.Sprint(tot.Samples[i]) < fmt.Sprint(tot.Samples[j]) })
	if len(tot.Samples) > 8 {
		tot.Samples = tot.Samples[:8]
	}
	return &tot, nil
}

// filterDraws drops rapid's draw log from a test log.
func filterDraws(log string) string {
	var out []string
	for _, l := range strings.Split(log, "\n") {
		if !strings.Contains(l, "[rapid] draw") {
			out = append(out, l)
		}
	}
	return strings.Join(out, "\n")
}

// runNativeFuzz runs `go test -fuzz` for the target; a crasher is copied to replays/ and
// reported. It returns the number of campaigns run.
func runNativeFuzz(r *Run, s *TSpec, pigeon string) int {
	dir := filepath.Join(r.Work, "pmain")
	d := s.FuzzTime
	if d == 0 {
		d = 120 * time.Second
	}
	corpus := filepath.Join(r.Work, "corpus")
	os.MkdirAll(corpus, 0o755)
	pegs, _ := filepath.Glob(filepath.Join(r.Repo, "*", "*", "*.peg"))
	more, _ := filepath.Glob(filepath.Join(r.Repo, "*", "*.peg"))
	for i, p := range append(pegs, more...) {
		copyFile(p, filepath.Join(corpus, fmt.Sprintf("c%03d.peg", i)))
	}
	runs := 0
	for _, withCorpus := range []bool{true, false} {
		ctx, cancel := context.WithTimeout(context.Background(), d+3*time.Minute)
		cmd := exec.CommandContext(ctx, "go", "test", "-tags", "vtool", "-run", "^$", "-fuzz", "^"+s.Fuzz+"$", "-fuzztime", d.String(), ".")
		cmd.Dir = dir
		env := append(batch.Env(), "VTOOL_TMP="+filepath.Join(r.Work, "ttmp"), "VTOOL_PIGEON="+pigeon, "VTOOL_REPO="+r.Repo)
		if withCorpus {
			env = append(env, "VTOOL_CORPUS="+corpus)
		}
		cmd.Env = env
		out, err := cmd.CombinedOutput()
		cancel()
		runs++
		if err != nil && strings.Contains(string(out), "Failing input written to") {
			// copy the minimised crasher
			m, _ := filepath.Glob(filepath.Join(dir, "testdata", "fuzz", s.Fuzz, "*"))
			for _, f := range m {
				b, _ := os.ReadFile(f)
				// the fuzzer also reports inputs on which a worker was slow or died: only an input
				// that fails again, by itself, as a plain test within two minutes is a violation (a
				// time limit hit is inconclusive, never a verdict)
				cctx, ccancel := context.WithTimeout(context.Background(), 4*time.Minute)
				conf := exec.CommandContext(cctx, "go", "test", "-tags", "vtool", "-run", "^"+s.Fuzz+"$/^"+filepath.Base(f)+"$", "-timeout", "120s", "-count", "1", ".")
				conf.Dir = dir
				conf.Env = env
				cout, cerr := conf.CombinedOutput()
				ccancel()
				if cerr == nil || strings.Contains(string(cout), "test timed out") || !strings.Contains(string(cout), "--- FAIL") {
					r.Logf("native fuzz: reported input does not fail by itself within the time limit (not a verdict):\n%s\n%s", trunc(string(b), 300), lastLines(string(cout), 6))
					continue
				}
				r.Logf("native fuzz crasher %s:\n%s\n%s", f, trunc(string(b), 600), lastLines(string(cout), 15))
				r.Violation(map[string]any{"property": s.ID, "engine": "tool", "check_kind": "native_fuzz_crasher", "fuzz_target": s.Fuzz, "corpus_entry": string(b),
					"diff": lastLines(string(cout), 15)})
			}
			os.RemoveAll(filepath.Join(dir, "testdata"))
		} else if err != nil {
			r.Logf("native fuzz run ended with %v:\n%s", err, lastLines(string(out), 10))
		}
	}
	return runs
}
