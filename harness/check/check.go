// Package check holds the per-property check definitions and the plumbing they share:
// tiers, seeds, known findings, replay files, evidence files, exit codes.
package check

import (
	"crypto/sha256"
	"encoding/hex"
	"encoding/json"
	"fmt"
	"os"
	"os/exec"
	"path/filepath"
	"sort"
	"strings"
	"syscall"
	"time"
)

// Options of a vcheck invocation.
type Options struct {
	Property string
	Tier     string
	Seed     int64
	Replay   string
	Keep     bool
	Repo     string
	Grammars int // override
	Cases    int // override
}

// Finding is an entry of known_findings.json.
type Finding struct {
	ID       string `json:"id"`
	Property string `json:"property"`
	Status   string `json:"status"` // open | fixed
	Commit   string `json:"commit,omitempty"`
	Matcher  string `json:"matcher,omitempty"`
	What     string `json:"what"`
	Witness  string `json:"witness,omitempty"`
	Since    string `json:"since,omitempty"`
	Probe    string `json:"probe,omitempty"`
}

// Evidence mirrors EVIDENCE.schema.json.
type Evidence struct {
	PropertyID  string         `json:"property_id"`
	Tier        string         `json:"tier"`
	Seed        int64          `json:"seed"`
	Level       string         `json:"level"`
	Coverage    map[string]any `json:"coverage"`
	Assumptions []string       `json:"assumptions"`
	WallS       float64        `json:"wall_s"`
	Violations  int            `json:"violations"`
}

// Run is the context handed to a property runner.
type Run struct {
	Opt      Options
	Root     string
	Repo     string
	Work     string
	Findings []Finding
	Start    time.Time

	// multi: the check has several parts (engines); their evidence is merged by FlushParts
	multi bool
	parts []*Evidence

	violations []string // replay paths
	known      []string // KNOWN-FINDING lines
	infra      []string
}

// Logf prints progress to stderr.
func (r *Run) Logf(f string, a ...any) {
	fmt.Fprintf(os.Stderr, "[%s %6.1fs] %s\n", r.Opt.Property, time.Since(r.Start).Seconds(), fmt.Sprintf(f, a...))
}

// Quick reports whether the quick tier runs.
func (r *Run) Quick() bool { return r.Opt.Tier != "thorough" }

// OpenFindings lists the ids of the open findings relevant to the property (all open
// findings are passed: a finding of one property may contaminate the cases of another).
func (r *Run) OpenFindings() []string {
	var out []string
	for _, f := range r.Findings {
		if f.Status == "open" {
			out = append(out, f.ID)
		}
	}
	sort.Strings(out)
	return out
}

// FindingsOf lists the findings recorded for the property.
func (r *Run) FindingsOf(prop string) []Finding {
	var out []Finding
	for _, f := range r.Findings {
		if f.Property == prop {
			out = append(out, f)
		}
	}
	return out
}

// Violation records a violation with its replay payload and returns the replay path.
func (r *Run) Violation(payload any) string {
	b, _ := json.MarshalIndent(payload, "", " ")
	sum := sha256.Sum256(b)
	dir := filepath.Join(r.Root, "replays", r.Opt.Property)
	os.MkdirAll(dir, 0o755)
	path := filepath.Join(dir, "v-"+hex.EncodeToString(sum[:6])+".json")
	os.WriteFile(path, b, 0o644)
	r.violations = append(r.violations, path)
	return path
}

// ViolationAt records a violation whose replay file already exists.
func (r *Run) ViolationAt(path string) { r.violations = append(r.violations, path) }

// Known records a known finding that still reproduces.
func (r *Run) Known(f Finding) {
	r.known = append(r.known, fmt.Sprintf("KNOWN-FINDING: property=%s %s: %s", f.Property, f.ID, f.What))
}

// Infra records an infrastructure problem (exit 2).
func (r *Run) Infra(f string, a ...any) {
	r.infra = append(r.infra, fmt.Sprintf(f, a...))
}

// WriteEvidence writes evidence/<id>.json.
func (r *Run) WriteEvidence(ev *Evidence) error {
	if r.multi {
		r.parts = append(r.parts, ev)
		return nil
	}
	ev.PropertyID = r.Opt.Property
	ev.Tier = r.Opt.Tier
	ev.Seed = r.Opt.Seed
	if ev.Level == "" {
		ev.Level = "exploration"
	}
	ev.WallS = time.Since(r.Start).Seconds()
	ev.Violations = len(r.violations)
	dir := filepath.Join(r.Root, "evidence")
	if r.Opt.Repo != "" {
		// a run against another tree (--repo: scratch worktrees with seeded changes) must not
		// overwrite the evidence of /repo itself
		dir = filepath.Join(r.Root, "work", "evidence-other-tree")
	}
	os.MkdirAll(dir, 0o755)
	b, err := json.MarshalIndent(ev, "", " ")
	if err != nil {
		return err
	}
	return os.WriteFile(filepath.Join(dir, r.Opt.Property+".json"), b, 0o644)
}

func asInt(v any) int {
	switch n := v.(type) {
	case int:
		return n
	case int64:
		return int(n)
	case float64:
		return int(n)
	}
	return 0
}

// FlushParts merges the evidence of the parts of a multi-part check (names in the order the
// parts ran) and writes it: counts are summed, samples concatenated, every part's own
// coverage is kept under parts.<name>.
func (r *Run) FlushParts(names []string) error {
	r.multi = false
	if len(r.parts) == 0 {
		return nil
	}
	cov := map[string]any{"exhaustive": false}
	var rules []string
	var samples []any
	evals, nontriv := 0, 0
	partsCov := map[string]any{}
	var assumptions []string
	seenA := map[string]bool{}
	for i, p := range r.parts {
		name := fmt.Sprintf("part%d", i+1)
		if i < len(names) {
			name = names[i]
		}
		evals += asInt(p.Coverage["evaluations"])
		nontriv += asInt(p.Coverage["distinct_nontrivial"])
		if s, ok := p.Coverage["rule"].(string); ok {
			rules = append(rules, name+": "+s)
		}
		b, _ := json.Marshal(p.Coverage["samples"])
		var ss []any
		json.Unmarshal(b, &ss)
		if len(ss) > 6 {
			ss = ss[:6]
		}
		samples = append(samples, ss...)
		partsCov[name] = p.Coverage
		for _, a := range p.Assumptions {
			if !seenA[a] {
				seenA[a] = true
				assumptions = append(assumptions, a)
			}
		}
	}
	cov["evaluations"] = evals
	cov["distinct_nontrivial"] = nontriv
	cov["rule"] = strings.Join(rules, " || ")
	cov["samples"] = samples
	cov["parts"] = partsCov
	r.parts = nil
	return r.WriteEvidence(&Evidence{Coverage: cov, Assumptions: assumptions})
}

// replayEngine reads the engine field of a replay file ("" when unreadable).
func replayEngine(path string) string {
	b, err := os.ReadFile(path)
	if err != nil {
		return ""
	}
	var h struct {
		Engine string `json:"engine"`
	}
	json.Unmarshal(b, &h)
	return h.Engine
}

// Runner is a property check.
type Runner func(r *Run) error

var runners = map[string]Runner{}

func register(id string, f Runner) { runners[id] = f }

func findRoot() string {
	if v := os.Getenv("VERIF_ROOT"); v != "" {
		return v
	}
	wd, _ := os.Getwd()
	for d := wd; d != "/" && d != "."; d = filepath.Dir(d) {
		if _, err := os.Stat(filepath.Join(d, "properties.jsonl")); err == nil {
			return d
		}
	}
	if exe, err := os.Executable(); err == nil {
		d := filepath.Dir(filepath.Dir(exe))
		if _, err := os.Stat(filepath.Join(d, "properties.jsonl")); err == nil {
			return d
		}
	}
	return "/verif"
}

func loadFindings(root string) ([]Finding, error) {
	b, err := os.ReadFile(filepath.Join(root, "known_findings.json"))
	if os.IsNotExist(err) {
		return nil, nil
	}
	if err != nil {
		return nil, err
	}
	var fs []Finding
	if err := json.Unmarshal(b, &fs); err != nil {
		return nil, fmt.Errorf("known_findings.json: %v", err)
	}
	return fs, nil
}

// ensureDiskSpace empties the Go build cache when the file system is nearly full: every check
// compiles hundreds of generated parser packages, the cache keeps all of them (it grew to 135
// GB in one day of development) and a full disk turns into compile failures of the batch.
func ensureDiskSpace(root string) {
	var st syscall.Statfs_t
	if err := syscall.Statfs(root, &st); err != nil {
		return
	}
	free := st.Bavail * uint64(st.Bsize) >> 30
	if free >= 20 {
		return
	}
	fmt.Fprintf(os.Stderr, "vcheck: only %d GB free: emptying the Go build cache\n", free)
	cmd := exec.Command("go", "clean", "-cache")
	cmd.Run()
}

// Main runs one check and returns the exit status.
func Main(o Options) int {
	root := findRoot()
	repo := o.Repo
	if repo == "" {
		repo = os.Getenv("VERIF_REPO")
	}
	if repo == "" {
		repo = "/repo"
	}
	f, ok := runners[o.Property]
	if !ok {
		fmt.Fprintf(os.Stderr, "vcheck: no check registered for %s\n", o.Property)
		return 2
	}
	if o.Seed == 0 {
		o.Seed = 1 // rapid treats 0 as "random": remap
	}
	if o.Seed < 0 {
		o.Seed = -o.Seed
	}
	findings, err := loadFindings(root)
	if err != nil {
		fmt.Fprintln(os.Stderr, "vcheck:", err)
		return 2
	}
	ensureDiskSpace(root)
	work := filepath.Join(root, "work", fmt.Sprintf("%s-%s-%d", o.Property, o.Tier, os.Getpid()))
	os.RemoveAll(work)
	if err := os.MkdirAll(work, 0o755); err != nil {
		fmt.Fprintln(os.Stderr, "vcheck:", err)
		return 2
	}
	r := &Run{Opt: o, Root: root, Repo: repo, Work: work, Findings: findings, Start: time.Now()}
	if !o.Keep {
		defer os.RemoveAll(work)
	}
	err = f(r)
	for _, k := range r.known {
		fmt.Println(k)
	}
	if err != nil {
		fmt.Fprintf(os.Stderr, "vcheck %s: %v\n", o.Property, err)
		if len(r.violations) == 0 {
			return 2
		}
	}
	if len(r.violations) > 0 {
		for _, v := range r.violations {
			fmt.Printf("VIOLATION property=%s replay=%s\n", o.Property, v)
		}
		return 1
	}
	if len(r.infra) > 0 {
		fmt.Fprintf(os.Stderr, "vcheck %s: inconclusive: %s\n", o.Property, strings.Join(r.infra, "; "))
		return 2
	}
	fmt.Printf("OK property=%s tier=%s seed=%d wall=%.1fs\n", o.Property, o.Tier, o.Seed, time.Since(r.Start).Seconds())
	return 0
}
