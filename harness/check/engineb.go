package check

import (
	"encoding/json"
	"fmt"
	"hash/fnv"
	"os"
	"path/filepath"
	"sort"
	"strings"
	"time"

	"verif/harness/batch"
	"verif/harness/batchrun"
	"verif/harness/gspec"
)

// BSpec configures an Engine B property check.
type BSpec struct {
	ID          string
	Profiles    []string
	Grammars    [2]int // quick, thorough
	Cases       [2]int // rapid checks per group
	Variants    func(i int, g *gspec.Grammar) []batch.Variant
	Tweak       func(i int, g *gspec.Grammar)
	Gen         func(r *Run, i int, seed int) *gspec.Grammar // overrides the profile generator
	Race        bool
	Rule        string
	Assumptions []string
	DesignRef   string
	// CompileFailIsFailure: a witness/replay group whose parser is refused or does not
	// compile counts as a failing witness (C04).
	CompileFailIsFailure bool
	// Revariant recomputes the flag sets for a reduced grammar (flags that name rules).
	Revariant func(g *gspec.Grammar, old []batch.Variant) []batch.Variant
	// Post inspects the batch result (C04: compile failures are violations there).
	Post func(r *Run, res *batch.Result, ev map[string]any)
}

// ReplayFile is the self-contained description of a failing (or witness) case.
type ReplayFile struct {
	Property string          `json:"property"`
	Engine   string          `json:"engine"`
	Kind     string          `json:"check_kind"`
	RepoHead string          `json:"repo_head,omitempty"`
	Seed     int64           `json:"seed"`
	Tier     string          `json:"tier"`
	Spec     json.RawMessage `json:"spec"`
	Grammar  string          `json:"grammar_text"`
	Variants []batch.Variant `json:"variants"`
	Case     json.RawMessage `json:"case"`
	Expected string          `json:"expected,omitempty"`
	Actual   string          `json:"actual,omitempty"`
	Diff     string          `json:"diff,omitempty"`
	Finding  string          `json:"finding,omitempty"`
	Shrink   map[string]int  `json:"shrink,omitempty"`
}

func seedFor(base int64, prop string, i int) int {
	h := fnv.New64a()
	fmt.Fprintf(h, "%d|%s|%d", base, prop, i)
	return int(h.Sum64() & 0x7fffffff)
}

func tierIdx(r *Run) int {
	if r.Quick() {
		return 0
	}
	return 1
}

func loadReplay(path string) (*ReplayFile, *gspec.Grammar, error) {
	b, err := os.ReadFile(path)
	if err != nil {
		return nil, nil, err
	}
	var rf ReplayFile
	if err := json.Unmarshal(b, &rf); err != nil {
		return nil, nil, fmt.Errorf("%s: %v", path, err)
	}
	g, err := gspec.FromJSON(rf.Spec)
	if err != nil {
		return nil, nil, fmt.Errorf("%s: spec: %v", path, err)
	}
	return &rf, g, nil
}

// savedReplays lists replays/<id>/*.json (witnesses kf-*.json and regressions).
func savedReplays(r *Run, id string) []string {
	all, _ := filepath.Glob(filepath.Join(r.Root, "replays", id, "*.json"))
	sort.Strings(all)
	var m []string
	for _, f := range all {
		// a property checked by two engines keeps the replays of both in one directory
		if replayEngine(f) == "batch" {
			m = append(m, f)
		}
	}
	return m
}

func repoHead(repo string) string {
	b, err := os.ReadFile(filepath.Join(repo, ".git", "HEAD"))
	if err != nil {
		return ""
	}
	s := strings.TrimSpace(string(b))
	if strings.HasPrefix(s, "ref: ") {
		if rb, err := os.ReadFile(filepath.Join(repo, ".git", strings.TrimPrefix(s, "ref: "))); err == nil {
			return strings.TrimSpace(string(rb))
		}
	}
	return s
}

func runB(r *Run, s *BSpec) error {
	ti := tierIdx(r)
	nG, nC := s.Grammars[ti], s.Cases[ti]
	if r.Opt.Grammars > 0 {
		nG = r.Opt.Grammars
	}
	if r.Opt.Cases > 0 {
		nC = r.Opt.Cases
	}
	var jobs []batch.Job
	replayOnly := r.Opt.Replay != ""
	if !replayOnly {
		for i := 0; i < nG; i++ {
			var g *gspec.Grammar
			seed := seedFor(r.Opt.Seed, s.ID, i)
			if s.Gen != nil {
				g = s.Gen(r, i, seed)
			} else {
				prof := s.Profiles[i%len(s.Profiles)]
				g = gspec.GrammarGen(gspec.Profile(prof)).Example(seed)
			}
			if s.Tweak != nil {
				s.Tweak(i, g)
				g.Analyze()
			}
			jobs = append(jobs, batch.Job{Spec: g, Variants: s.Variants(i, g)})
		}
	}
	// witnesses of recorded findings and saved regression cases
	witnessOf := map[string]Finding{}
	for _, f := range r.FindingsOf(s.ID) {
		if f.Witness != "" {
			witnessOf[filepath.Join(r.Root, f.Witness)] = f
		}
	}
	var files []string
	if replayOnly {
		files = []string{r.Opt.Replay}
	} else {
		files = savedReplays(r, s.ID)
	}
	for _, f := range files {
		rf, g, err := loadReplay(f)
		if err != nil {
			r.Infra("replay file %s: %v", f, err)
			continue
		}
		abs, _ := filepath.Abs(f)
		jobs = append(jobs, batch.Job{Spec: g, Variants: rf.Variants, Witness: abs, Case: rf.Case, Text: ""})
	}
	if len(jobs) == 0 {
		return fmt.Errorf("nothing to run")
	}
	shards := 16
	cfg := &batch.Config{Root: r.Root, Repo: r.Repo, Work: r.Work, Property: s.ID, Tier: r.Opt.Tier, Seed: uint64(r.Opt.Seed), Cases: nC,
		KF: r.OpenFindings(), Jobs: jobs, Race: s.Race, Shards: shards, Replay: replayOnly, Log: r.Logf}
	if r.Quick() {
		cfg.Timeout = 8 * time.Minute
	} else {
		cfg.Timeout = 40 * time.Minute
	}
	r.Logf("generating %d grammars (%d groups incl. %d replays), %d cases each", nG, len(jobs), len(files), nC)
	res, err := batch.Run(cfg)
	if err != nil {
		return err
	}
	r.Logf("pigeon runs=%d refused=%d compile_fail=%d gen=%.1fs build=%.1fs run=%.1fs", res.PigeonRuns, res.Refused, res.CompileFail,
		res.GenWall.Seconds(), res.BuildWall.Seconds(), res.RunWall.Seconds())

	// aggregate
	tot := batchrun.Summary{Excluded: map[string]int{}, Tags: map[string]int{}}
	var viols []*batchrun.Violation
	witnessFail := map[string]bool{}
	witnessRun := map[string]bool{}
	for _, sum := range res.Summaries {
		if sum == nil {
			continue
		}
		tot.Evaluations += sum.Evaluations
		tot.Cases += sum.Cases
		tot.Nontrivial += sum.Nontrivial
		tot.Discarded += sum.Discarded
		tot.GroupsRun += sum.GroupsRun
		for k, v := range sum.Excluded {
			tot.Excluded[k] += v
		}
		for k, v := range sum.Tags {
			tot.Tags[k] += v
		}
		tot.Samples = append(tot.Samples, sum.Samples...)
		tot.Notes = append(tot.Notes, sum.Notes...)
		viols = append(viols, sum.Violations...)
		for _, w := range sum.WitnessFails {
			witnessFail[w] = true
		}
		for _, w := range sum.WitnessRuns {
			witnessRun[w] = true
		}
	}
	for _, n := range tot.Notes {
		r.Logf("note: %s", n)
	}
	if s.CompileFailIsFailure {
		for _, g := range res.Meta.Groups {
			if g.Witness == "" {
				continue
			}
			for _, p := range g.Pkgs {
				if p.Refused || p.CompileFail {
					witnessRun[g.Witness] = true
					witnessFail[g.Witness] = true
					r.Logf("note: witness %s: generated parser refused or not compiling: %s%s", g.Witness, trunc(p.Stderr, 200), trunc(p.CompileErr, 300))
				}
			}
		}
	}

	// witnesses: an open finding that still reproduces is announced; anything else that
	// fails (fixed findings, saved regressions, --replay) is a violation
	for _, f := range files {
		abs, _ := filepath.Abs(f)
		if !witnessRun[abs] {
			// the witness grammar may have been refused or failed to compile
			r.Logf("note: replay %s was not run (grammar refused or not compiled)", f)
			continue
		}
		if !witnessFail[abs] {
			continue
		}
		if kf, ok := witnessOf[abs]; ok && kf.Status == "open" && !replayOnly {
			r.Known(kf)
			continue
		}
		r.ViolationAt(f)
	}

	// new violations: write replay files for the three smallest ones
	head := repoHead(r.Repo)
	sort.SliceStable(viols, func(i, j int) bool {
		a, b := len(viols[i].Spec)+8*len(viols[i].Case.Input), len(viols[j].Spec)+8*len(viols[j].Case.Input)
		return a < b
	})
	if len(viols) > 3 {
		r.Logf("%d groups violated the property; reporting the 3 smallest", len(viols))
		viols = viols[:3]
	}
	for vi, v := range viols {
		g := res.Meta.Groups[v.Group]
		var variants []batch.Variant
		for _, p := range g.Pkgs {
			variants = append(variants, batch.Variant{Name: p.Variant, Flags: stripRecv(p.Flags)})
		}
		cb, _ := json.Marshal(v.Case)
		spec, _ := gspec.FromJSON(v.Spec)
		text := ""
		if spec != nil {
			text = gspec.Print(spec, gspec.PrintOpts{StubCode: true, NoInit: true})
		}
		rf := &ReplayFile{Property: s.ID, Engine: "batch", Kind: v.Kind, RepoHead: head, Seed: r.Opt.Seed, Tier: r.Opt.Tier,
			Spec: v.Spec, Grammar: text, Variants: variants, Case: cb, Expected: v.Expect, Actual: v.Actual, Diff: v.Pkg + " (" + v.Variant + "): " + v.Diff}
		r.Logf("violation %s: %s\n   grammar:\n%s   case: %s", v.Kind, v.Diff, indent(text), string(cb))
		if vi == 0 {
			budget := 90 * time.Second
			if !r.Quick() {
				budget = 4 * time.Minute
			}
			rf = shrinkReplay(r, s, rf, 14, budget)
		}
		r.Violation(rf)
	}

	// the grammars are accepted ones by construction: a refusal by the tool is a violation
	// (C04 has its own, more detailed handling)
	if s.Post == nil && !replayOnly {
		refusals := 0
		for _, g := range res.Meta.Groups {
			if len(g.Case) > 0 {
				continue
			}
			for _, p := range g.Pkgs {
				if !p.Refused {
					continue
				}
				refusals++
				if refusals > 2 {
					continue
				}
				specB, _ := os.ReadFile(filepath.Join(r.Work, g.SpecFile))
				spec, _ := gspec.FromJSON(specB)
				text := ""
				if spec != nil {
					text = gspec.Print(spec, gspec.PrintOpts{StubCode: true, NoInit: true})
				}
				r.Logf("violation refused: pigeon %v refused a well-formed grammar (exit %d): %s\n   grammar:\n%s", p.Flags, p.Exit, trunc(p.Stderr, 500), indent(text))
				r.Violation(&ReplayFile{Property: s.ID, Engine: "batch", Kind: "refused", RepoHead: head, Seed: r.Opt.Seed, Tier: r.Opt.Tier, Spec: specB, Grammar: text,
					Variants: []batch.Variant{{Name: p.Variant, Flags: stripRecv(p.Flags)}}, Case: []byte(`{"entry":""}`),
					Diff: fmt.Sprintf("pigeon %v refused a grammar that is well-formed by construction (exit %d): %s", p.Flags, p.Exit, trunc(p.Stderr, 600))})
			}
		}
	}

	// crashes / hangs
	for _, cr := range res.Crashes {
		handleCrash(r, s, res, cr)
	}

	ev := map[string]any{
		"evaluations":         tot.Evaluations,
		"distinct_nontrivial": tot.Nontrivial,
		"rule":                s.Rule,
		"samples":             pickSamples(tot.Samples, 8),
		"cases_generated":     tot.Cases,
		"discarded_budget":    tot.Discarded,
		"excluded_known":      tot.Excluded,
		"class_distribution":  tot.Tags,
		"grammars_generated":  nG,
		"parser_packages":     res.PigeonRuns,
		"refused":             res.Refused,
		"compile_fail":        res.CompileFail,
		"groups_run":          tot.GroupsRun,
		"replays_run":         len(witnessRun),
		"shards_crashed":      len(res.Crashes),
		"exhaustive":          false,
	}
	if s.Post != nil {
		s.Post(r, res, ev)
	}
	if !replayOnly {
		if err := r.WriteEvidence(&Evidence{Coverage: ev, Assumptions: s.Assumptions}); err != nil {
			return err
		}
		if tot.Nontrivial < 2 && len(r.violations) == 0 {
			r.Infra("only %d non-trivial cases were explored", tot.Nontrivial)
		}
	}
	return nil
}

func stripRecv(flags []string) []string {
	var out []string
	for i := 0; i < len(flags); i++ {
		if flags[i] == "-receiver-name" {
			i++
			continue
		}
		out = append(out, flags[i])
	}
	return out
}

func indent(s string) string {
	var b strings.Builder
	for _, l := range strings.Split(strings.TrimRight(s, "\n"), "\n") {
		if l != "" {
			b.WriteString("      " + l + "\n")
		}
	}
	return b.String()
}

func pickSamples(s []batchrun.Sample, n int) []batchrun.Sample {
	if len(s) <= n {
		return s
	}
	out := make([]batchrun.Sample, 0, n)
	step := len(s) / n
	for i := 0; i < n; i++ {
		out = append(out, s[i*step])
	}
	return out
}

// handleCrash reproduces the case a dead or hung shard was running; it is a violation only
// if it reproduces twice in isolation, otherwise the run is inconclusive.
func handleCrash(r *Run, s *BSpec, res *batch.Result, cr batch.Crash) {
	r.Logf("shard %d died: exit=%d hang=%v timeout=%v current=%s\n%s", cr.Shard, cr.Exit, cr.Hang, cr.Timeout, string(cr.Current), lastLines(cr.Stderr, 25))
	if len(cr.Current) == 0 {
		r.Infra("shard %d died (exit %d) without a current case", cr.Shard, cr.Exit)
		return
	}
	var cur struct {
		Group int             `json:"group"`
		Pkg   string          `json:"pkg"`
		Case  json.RawMessage `json:"case"`
	}
	if err := json.Unmarshal(cr.Current, &cur); err != nil || cur.Group >= len(res.Meta.Groups) {
		r.Infra("shard %d died; current case unreadable", cr.Shard)
		return
	}
	if strings.Contains(cr.Stderr, "DATA RACE") && len(r.violations) >= 3 {
		return
	}
	if strings.Contains(cr.Stderr, "DATA RACE") {
		// the race detector reports only real races: no confirmation run needed
		g := res.Meta.Groups[cur.Group]
		specB, _ := os.ReadFile(filepath.Join(r.Work, g.SpecFile))
		var variants []batch.Variant
		for _, p := range g.Pkgs {
			variants = append(variants, batch.Variant{Name: p.Variant, Flags: stripRecv(p.Flags)})
		}
		spec, _ := gspec.FromJSON(specB)
		text := ""
		if spec != nil {
			text = gspec.Print(spec, gspec.PrintOpts{StubCode: true, NoInit: true})
		}
		r.Violation(&ReplayFile{Property: s.ID, Engine: "batch", Kind: "data_race", RepoHead: repoHead(r.Repo), Seed: r.Opt.Seed, Tier: r.Opt.Tier, Spec: specB,
			Grammar: text, Variants: variants, Case: cur.Case, Diff: "the race detector reported a data race: " + raceSummary(cr.Stderr)})
		return
	}
	if cr.Timeout && !cr.Hang {
		r.Infra("shard %d exceeded its time limit", cr.Shard)
		return
	}
	g := res.Meta.Groups[cur.Group]
	specB, err := os.ReadFile(filepath.Join(r.Work, g.SpecFile))
	if err != nil {
		r.Infra("shard %d died; spec unreadable", cr.Shard)
		return
	}
	var variants []batch.Variant
	for _, p := range g.Pkgs {
		variants = append(variants, batch.Variant{Name: p.Variant, Flags: stripRecv(p.Flags)})
	}
	spec, _ := gspec.FromJSON(specB)
	kind := "crash"
	if cr.Hang {
		kind = "hang"
	}
	rf := &ReplayFile{Property: s.ID, Engine: "batch", Kind: kind, RepoHead: repoHead(r.Repo), Seed: r.Opt.Seed, Tier: r.Opt.Tier, Spec: specB,
		Grammar: gspec.Print(spec, gspec.PrintOpts{StubCode: true, NoInit: true}), Variants: variants, Case: cur.Case,
		Diff: fmt.Sprintf("%s: generated parser %s (exit %d): %s", cur.Pkg, kind, cr.Exit, lastLines(cr.Stderr, 6))}
	// confirm in isolation, twice
	tmp := filepath.Join(r.Work, "crash-replay.json")
	b, _ := json.Marshal(rf)
	os.WriteFile(tmp, b, 0o644)
	confirmed := 0
	for i := 0; i < 2; i++ {
		sub := filepath.Join(r.Work, fmt.Sprintf("isolate%d-%d", cr.Shard, i))
		cfg := &batch.Config{Root: r.Root, Repo: r.Repo, Work: sub, Property: s.ID, Tier: r.Opt.Tier, Seed: uint64(r.Opt.Seed), Cases: 1,
			KF: r.OpenFindings(), Jobs: []batch.Job{{Spec: spec, Variants: variants, Witness: tmp, Case: cur.Case}}, Race: s.Race, Shards: 1,
			Replay: true, Timeout: 60 * time.Second}
		os.MkdirAll(sub, 0o755)
		// reuse the pigeon binary
		os.Link(filepath.Join(r.Work, "pigeon"), filepath.Join(sub, "pigeon"))
		rr, err := batch.Run(cfg)
		if err == nil {
			for _, sum := range rr.Summaries {
				if sum != nil && len(sum.WitnessFails) > 0 {
					confirmed++
					break
				}
			}
		}
		os.RemoveAll(sub)
	}
	if confirmed == 2 {
		r.Violation(rf)
		return
	}
	r.Infra("shard %d died but the case did not reproduce in isolation (%d/2)", cr.Shard, confirmed)
}

func raceSummary(stderr string) string {
	var out []string
	for _, l := range strings.Split(stderr, "\n") {
		t := strings.TrimSpace(l)
		if strings.HasPrefix(t, "Write at") || strings.HasPrefix(t, "Read at") || strings.HasPrefix(t, "Previous") || strings.Contains(t, "vwork/p") {
			out = append(out, t)
		}
		if len(out) >= 8 {
			break
		}
	}
	return strings.Join(out, " | ")
}

func lastLines(s string, n int) string {
	l := strings.Split(strings.TrimRight(s, "\n"), "\n")
	if len(l) > n {
		l = l[len(l)-n:]
	}
	return strings.Join(l, "\n")
}
