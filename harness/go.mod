module verif/harness

go 1.25.0

require (
	github.com/mna/pigeon v0.0.0
	pgregory.net/rapid v1.3.0
)

replace github.com/mna/pigeon => /repo
