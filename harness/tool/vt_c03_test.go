//go:build vtool

package main

import (
	"strings"
	"bytes"
	"encoding/json"
	"fmt"
	"os"
	"path/filepath"
	"sort"
	"testing"

	"pgregory.net/rapid"

	"github.com/mna/pigeon/ast"

	"verif/harness/gspec"
)

// C03: the front-end accepts the documented syntax and builds the denoted AST.

type c03Case struct {
	Text     string          `json:"grammar_text"`
	Spec     json.RawMessage `json:"spec,omitempty"`
	Kind     string          `json:"kind"`
	Features map[string]int  `json:"features,omitempty"`
}

// normalizeForSpelling makes a drawn grammar spellable: a member hyphen of a class becomes
// its first character member (the only place where it can be written unambiguously).
func normalizeForSpelling(g *gspec.Grammar, escapedHyphenOK bool) {
	for _, r := range g.Rules {
		gspec.Walk(r.Expr, func(e *gspec.Expr) {
			if e.K != gspec.KClass {
				return
			}
			var rest []rune
			h := false
			for _, c := range e.Chars {
				if c == '-' {
					h = true
				} else {
					rest = append(rest, c)
				}
			}
			if h && (!escapedHyphenOK || len(rest) == 0) {
				e.Chars = append([]rune{'-'}, rest...)
			} else if h {
				// keep one hyphen, not first: it is spelled as an escape
				e.Chars = append(append([]rune{rest[0]}, '-'), rest[1:]...)
			}
			for i, x := range e.Ranges {
				if x == '-' {
					e.Ranges[i] = '+'
				}
			}
			if len(e.Ranges) >= 2 {
				for i := 0; i+1 < len(e.Ranges); i += 2 {
					if e.Ranges[i] > e.Ranges[i+1] {
						e.Ranges[i], e.Ranges[i+1] = e.Ranges[i+1], e.Ranges[i]
					}
				}
			}
		})
		// code is drawn by the speller
	}
}

func parseToSpec(text []byte, opts ...Option) (*gspec.Grammar, error) {
	g, err := ParseReader("g.peg", bytes.NewReader(text), opts...)
	if err != nil {
		return nil, err
	}
	return toSpec(g.(*ast.Grammar)), nil
}

// checkConstruction: dump(ParseReader(spell(ast))) == ast, positions included.
func checkConstruction(want *gspec.Grammar, text string) (kind, diff string) {
	got, err := parseToSpec([]byte(text))
	if err != nil {
		return "refused", fmt.Sprintf("a grammar in the documented syntax was refused: %v", err)
	}
	dw, dg := dump(want, true), dump(got, true)
	if dw != dg {
		if dump(want, false) != dump(got, false) {
			return "ast_differs", firstDiff(dump(want, false), dump(got, false))
		}
		return "position_differs", firstDiff(dw, dg)
	}
	return "", ""
}

// checkPrintRoundTrip: for an accepted text t, parse(print(parse(t))) == parse(t) up to
// positions. It returns skip=true when the text is not accepted.
func checkPrintRoundTrip(text []byte) (kind, diff string, skip bool) {
	a, err := parseToSpec(text)
	if err != nil {
		return "", "", true
	}
	if !printable(a) {
		return "", "", true
	}
	a.Pkg = "p"
	printed := gspec.Print(a, gspec.PrintOpts{NoInit: true})
	if a.Init != "" {
		printed = a.Init + "\n\n" + printed
	}
	b, err := parseToSpec([]byte(printed))
	if err != nil {
		return "reprint_refused", fmt.Sprintf("the printed form of an accepted AST was refused: %v\nprinted:\n%s", err, truncT(printed, 600)), false
	}
	// the canonical printer writes a member hyphen first: class members are compared as a
	// multiset here (their exact order is covered by the construction round trip)
	sortClassChars(a)
	sortClassChars(b)
	if da, db := dump(a, false), dump(b, false); da != db {
		return "reprint_differs", firstDiff(da, db) + "\nprinted:\n" + truncT(printed, 600), false
	}
	return "", "", false
}

// codeSelfContained scans a code block the way the front-end's Code rule does and reports
// whether every quote and comment opener inside it is terminated inside it. A block with
// a dangling quote or "/*" is lexed differently depending on what follows it in the file,
// so no printer can reproduce it independently of its context: such ASTs are skipped.
func codeSelfContained(code string) bool {
	b := []byte(code)
	for i := 0; i < len(b); {
		switch {
		case b[i] == '/' && i+1 < len(b) && b[i+1] == '/':
			j := bytes.IndexByte(b[i:], '\n')
			if j < 0 {
				return false
			}
			i += j + 1
		case b[i] == '/' && i+1 < len(b) && b[i+1] == '*':
			j := bytes.Index(b[i+2:], []byte("*/"))
			if j < 0 {
				return false
			}
			i += 2 + j + 2
		case b[i] == '"':
			j := i + 1
			for j < len(b) && b[j] != '"' && b[j] != '\n' && b[j] != '\r' {
				if b[j] == '\\' && j+1 < len(b) && (b[j+1] == '"' || b[j+1] == '\\') {
					j++
				}
				j++
			}
			if j >= len(b) || b[j] != '"' {
				return false
			}
			i = j + 1
		case b[i] == '`':
			j := bytes.IndexByte(b[i+1:], '`')
			if j < 0 {
				return false
			}
			i += j + 2
		case b[i] == '\'':
			// exactly the front-end's rule:  ' ( \' / \\ / [^']+ ) '   - one group, ordered
			// choice without retry; where the literal does not match, the quote is a plain
			// character. When whether it matches depends on text behind the block, the block
			// is not self-contained.
			rest := b[i+1:]
			switch {
			case len(rest) < 2:
				return false
			case rest[0] == '\\' && (rest[1] == '\'' || rest[1] == '\\'):
				if len(rest) < 3 {
					return false
				}
				if rest[2] == '\'' {
					i += 4
				} else {
					i++
				}
			case rest[0] == '\'':
				i++ // '' is no literal
			default:
				j := bytes.IndexByte(rest, '\'')
				if j < 0 {
					return false // the literal would go on behind the block
				}
				i += 1 + j + 1
			}
		default:
			i++
		}
	}
	return true
}

func sortClassChars(g *gspec.Grammar) {
	for _, r := range g.Rules {
		gspec.Walk(r.Expr, func(e *gspec.Expr) {
			if e.K == gspec.KClass {
				// as a set: the printer writes a member hyphen once, as the first member
				sort.Slice(e.Chars, func(i, j int) bool { return e.Chars[i] < e.Chars[j] })
				var uniq []rune
				for i, c := range e.Chars {
					if i == 0 || c != e.Chars[i-1] {
						uniq = append(uniq, c)
					}
				}
				e.Chars = uniq
			}
		})
	}
}

// printable: ASTs the canonical printer cannot spell unambiguously are skipped (a hyphen
// as a range end point; nil nodes of error recovery never reach here because the parse
// must succeed).
func printable(g *gspec.Grammar) bool {
	ok := true
	if g.Init != "" && !codeSelfContained(g.Init) {
		ok = false
	}
	for _, r := range g.Rules {
		if r.Name == "" {
			ok = false
		}
		gspec.Walk(r.Expr, func(e *gspec.Expr) {
			switch e.K {
			case gspec.KClass:
				for _, x := range e.Ranges {
					if x == '-' {
						ok = false
					}
				}
			case gspec.KLit, gspec.KAny, gspec.KRef, gspec.KSeq, gspec.KChoice, gspec.KOpt, gspec.KStar, gspec.KPlus, gspec.KAnd, gspec.KNot, gspec.KLabel,
				gspec.KAction, gspec.KAndCode, gspec.KNotCode, gspec.KState, gspec.KThrow, gspec.KRecover:
			default:
				ok = false
			}
			if (e.K == gspec.KSeq || e.K == gspec.KChoice) && len(e.Sub) < 2 {
				ok = false
			}
			if e.IsCode() && !codeSelfContained(e.Code) {
				ok = false
			}
		})
	}
	return ok
}

func drawFrontendGrammar(rt *rapid.T) *gspec.Grammar {
	prof := gspec.Profile("frontend")
	if gspec.U(rt, 3, "names") == 0 {
		prof.NameStyle = 1
	}
	g := gspec.GrammarGen(prof).Draw(rt, "grammar")
	normalizeForSpelling(g, gspec.U(rt, 2, "hyphenplace") == 0)
	g.Init = gspec.Pick(rt, []string{"{\npackage p\n}", "{ package p }", "{\npackage p\n\nfunc f() string { return \"}\" }\n}", ""}, "init")
	// display names with characters that need escapes
	for _, r := range g.Rules {
		if r.Display == "" && gspec.U(rt, 8, "display") == 0 {
			r.Display = gspec.Pick(rt, []string{"name", "a \"quoted\" name", "tab\there", "é日", "back\\slash"}, "dname")
		}
	}
	return g
}

func TestC03(t *testing.T) {
	sum := newSummary("C03")
	defer sum.write()
	for _, f := range replayFiles() {
		b, err := os.ReadFile(f)
		if err != nil {
			continue
		}
		var rf struct {
			Case c03Case `json:"case"`
		}
		if json.Unmarshal(b, &rf) != nil {
			continue
		}
		sum.Replayed = append(sum.Replayed, f)
		failed := false
		if len(rf.Case.Spec) > 0 {
			if want, err := gspec.FromJSON(rf.Case.Spec); err == nil {
				if k, _ := checkConstruction(want, rf.Case.Text); k != "" {
					failed = true
				}
			}
		}
		if k, _, _ := checkPrintRoundTrip([]byte(rf.Case.Text)); k != "" {
			failed = true
		}
		if failed {
			sum.ReplayFails = append(sum.ReplayFails, f)
		}
	}
	if os.Getenv("VTOOL_REPLAY_ONLY") != "" {
		return
	}
	// the repository's own grammars are fixed inputs of the print round trip
	if repo := os.Getenv("VTOOL_REPO"); repo != "" {
		pegs, _ := filepath.Glob(filepath.Join(repo, "*", "*", "*.peg"))
		more, _ := filepath.Glob(filepath.Join(repo, "*", "*.peg"))
		for _, p := range append(pegs, more...) {
			b, err := os.ReadFile(p)
			if err != nil {
				continue
			}
			k, d, skip := checkPrintRoundTrip(b)
			if skip {
				continue
			}
			sum.note(p, true, "repo_grammar")
			if k != "" {
				sum.fail(k, d, &c03Case{Text: string(b), Kind: "repo:" + p})
				t.Fatalf("%s: %s", k, d)
			}
		}
	}
	// one fixed text per run (first shard): a sequence of 14 nested groups. Without -cache the
	// front-end needs seconds and tens of millions of expression evaluations for it (documented:
	// exponential in the nesting depth) - and accepts it: the documented syntax has no depth or
	// effort limit. A time limit hit is inconclusive, never a violation.
	if os.Getenv("VTOOL_SHARD") == "0" {
		text := "A = " + strings.Repeat("( ", 14) + "'a' / 'b'" + strings.Repeat(" )", 14) + "\n"
		dir := tmpDir(t)
		in := filepath.Join(dir, "nested.peg")
		os.WriteFile(in, []byte(text), 0o644)
		res := runMain(dir, []string{"-x", in}, nil, 240e9)
		sum.Tags["nested_14_groups_through_the_command"]++
		if !res.TimedOut && (res.Panic != "" || (res.Exited && res.Exit != 0)) {
			d := fmt.Sprintf("pigeon -x on 14 nested groups: exit %d, panic %q: %s", res.Exit, res.Panic, truncT(res.Stderr, 300))
			sum.fail("x_refused", d, &c03Case{Text: text, Kind: "nested"})
			t.Fatalf("x_refused: %s", d)
		}
	}
	n := 0
	rapid.Check(t, func(rt *rapid.T) {
		g := drawFrontendGrammar(rt)
		sp := gspec.NewSpeller(rt)
		text := sp.Spell(g)
		c := &c03Case{Text: text, Spec: g.ToJSON(), Kind: "spelled", Features: sp.Features}
		kind, diff := checkConstruction(g, text)
		nf := 0
		var tags []string
		for f := range sp.Features {
			nf++
			tags = append(tags, "spelling:"+f)
		}
		nontrivial := len(g.Kinds()) >= 3 && nf >= 1
		sum.note(text, nontrivial, tags...)
		if nontrivial {
			sum.sample(map[string]any{"grammar": truncT(text, 500), "features": sp.Features, "kinds": g.Kinds()})
		}
		if kind == "" {
			var skip bool
			kind, diff, skip = checkPrintRoundTrip([]byte(text))
			if skip && kind == "" {
				sum.Tags["reprint_skipped"]++
			}
		}
		if kind == "" {
			// near-valid mutations that are still accepted must round-trip as well
			mut := mutateText(rt, []byte(text))
			if k, d, skip := checkPrintRoundTrip(mut); !skip {
				sum.Tags["mutated_accepted"]++
				if k != "" {
					kind, diff = k, d
					c = &c03Case{Text: string(mut), Kind: "mutated"}
				}
			}
		}
		if kind == "" {
			n++
			if n%50 == 0 {
				// pigeon -x accepts it too
				dir := tmpDir(t)
				in := filepath.Join(dir, "g.peg")
				os.WriteFile(in, []byte(text), 0o644)
				res := runMain(dir, []string{"-x", in}, nil, 20e9)
				sum.Tags["cli_x_checked"]++
				if res.Exited && res.Exit != 0 {
					kind, diff = "x_refused", fmt.Sprintf("pigeon -x exit %d: %s", res.Exit, truncT(res.Stderr, 300))
				}
			}
		}
		if kind != "" {
			sum.fail(kind, diff, c)
			rt.Fatalf("%s: %s", kind, diff)
		}
	})
}

// FuzzFrontRoundTrip: coverage-guided search for accepted texts that do not survive the
// print round trip (thorough tier).
func FuzzFrontRoundTrip(f *testing.F) {
	for _, s := range []string{"A = 'a'", "{package p}\nA \"n\" <- B+ / &C !D\nB = [a-z\\pL]i\nC = . 'x'? ;D = \"\\u00e9\"", "A = x:'a' { return x, nil } / #{ return nil } &{ return true, nil }", "A = 'a' //{L, M} 'b'\nB = %{L}", "A = [^\\]\\\\-]* `raw`i"} {
		f.Add([]byte(s))
	}
	if dir := os.Getenv("VTOOL_CORPUS"); dir != "" {
		m, _ := filepath.Glob(filepath.Join(dir, "*.peg"))
		for _, p := range m {
			if b, err := os.ReadFile(p); err == nil && len(b) < 20000 {
				f.Add(b)
			}
		}
	}
	f.Fuzz(func(t *testing.T, text []byte) {
		if len(text) > 4000 || maxParenDepth(text) > 10 {
			t.Skip() // (deep nesting without -cache: documented exponential time, see maxParenDepth)
		}
		k, d, skip := checkPrintRoundTrip(text)
		if skip {
			t.Skip()
		}
		if k != "" {
			t.Fatalf("%s: %s", k, d)
		}
	})
}
