//go:build vtool

package main

import (
	"bytes"
	"context"
	"encoding/json"
	"errors"
	"fmt"
	"os"
	"os/exec"
	"path/filepath"
	"strings"
	"testing"
	"time"

	"pgregory.net/rapid"

	"github.com/mna/pigeon/builder"

	"verif/harness/gspec"
	"verif/harness/refpeg"
)

// C07: left recursion is detected - rejected by default, never silently accepted.

type c07Case struct {
	Spec    json.RawMessage `json:"spec"`
	Text    string          `json:"grammar_text"`
	Witness string          `json:"witness_input,omitempty"`
	Rule    string          `json:"reentered_rule,omitempty"`
	Side    string          `json:"side"` // must_reject | must_accept
	// Decoy names a rule that the text defines twice: an earlier definition `"a"` that the
	// later, real one replaces (pigeon accepts repeated names; the last definition is the one
	// references resolve to, for the analysis as for the generated parser).
	Decoy string `json:"decoy,omitempty"`
}

// c07Text prints the grammar, with the decoy definition when one is named.
func c07Text(g *gspec.Grammar, decoy string, noInit bool) string {
	if decoy != "" {
		c := g.Clone()
		for i, r := range c.Rules {
			if r.Name == decoy && i > 0 {
				d := &gspec.Rule{Name: decoy, Expr: gspec.Lit("a")}
				c.Rules = append(c.Rules[:i:i], append([]*gspec.Rule{d}, c.Rules[i:]...)...)
				break
			}
		}
		g = c
	}
	return gspec.Print(g, gspec.PrintOpts{StubCode: true, NoInit: noInit})
}

// witnessInputs are tried (besides samples of the grammar) to find a rule that is
// re-entered at an offset at which it is already active.
var witnessInputs = []string{"", "a", "b", "x", "y", "ab", "aa", "ba", "xa", "ya", "aab", "abab"}

// reentryWitness searches an input on which the reference evaluation re-enters a rule at
// the same offset: a concrete witness of unbounded recursion.
func reentryWitness(rt *rapid.T, g *gspec.Grammar) (entry, input, rule string, found bool) {
	try := func(entry string, in []byte) bool {
		res := refpeg.Eval(g, in, refpeg.Options{Entry: entry, StepBudget: 20000})
		if res.Stats.ReentrySame {
			input, rule = string(in), res.Stats.ReentryRule
			return true
		}
		return false
	}
	for _, r := range g.Rules {
		for _, w := range witnessInputs {
			if try(r.Name, []byte(w)) {
				return r.Name, input, rule, true
			}
		}
		for i := 0; i < 3; i++ {
			in := gspec.SampleInput(rt, g, r.Name, []rune{'a', 'b', 'x', 'y'}, 16)
			if try(r.Name, in) {
				return r.Name, input, rule, true
			}
		}
	}
	return "", "", "", false
}

func checkC07(g *gspec.Grammar, text string, mustReject, mustAccept bool) (kind, diff string, rejectedLR bool, buildErr error) {
	_, stage, err := generate([]byte(text), genFlags{})
	// both diagnostics of the left-recursion analysis count as a left-recursion build error
	// ("grammar contains left recursion", "SCC has no leadership candidate")
	rejectedLR = err != nil && (errors.Is(err, builder.ErrHaveLeftRecursion) || errors.Is(err, builder.ErrNoLeader))
	if stage == "panic" {
		return "panic", fmt.Sprint(err), rejectedLR, err
	}
	if stage == "parse" {
		return "frontend_refused", fmt.Sprintf("the front-end refused the grammar: %v", err), rejectedLR, err
	}
	if mustReject && !rejectedLR {
		return "lr_accepted", fmt.Sprintf("a rule re-enters itself at the same offset, but the build did not fail with the left-recursion error (stage %s, err %v)", stage, err), rejectedLR, err
	}
	if mustAccept && rejectedLR {
		return "lr_false_reject", "no rule can reach itself at its own start offset, but the build failed with the left-recursion error", rejectedLR, err
	}
	if (mustReject || mustAccept) && stage != "parse" {
		// the analysis runs on the optimized grammar when -optimize-grammar is given: the verdict
		// must be the same (every rule protected, so that none is dropped)
		var all []string
		for _, r := range g.Rules {
			all = append(all, r.Name)
		}
		_, ostage, oerr := generate([]byte(text), genFlags{OptimizeGrammar: true, AltEntries: all})
		orej := oerr != nil && (errors.Is(oerr, builder.ErrHaveLeftRecursion) || errors.Is(oerr, builder.ErrNoLeader))
		if ostage == "panic" {
			return "panic", fmt.Sprint(oerr), rejectedLR, oerr
		}
		if orej != rejectedLR {
			return "lr_verdict_changes_with_optimize_grammar", fmt.Sprintf("left-recursion error without -optimize-grammar: %v, with it: %v (stage %s, err %v)", rejectedLR, orej, ostage, oerr), rejectedLR, err
		}
	}
	return "", "", rejectedLR, err
}

// c07Known recognises the recorded findings by a predicate over the grammar itself.
func c07Known(g *gspec.Grammar, side string) string {
	emptyClass, underOp, inPred := false, false, false
	for _, r := range g.Rules {
		var walk func(e *gspec.Expr, op, pred bool)
		walk = func(e *gspec.Expr, op, pred bool) {
			if e.K == gspec.KClass && len(e.Chars) == 0 && len(e.Ranges) == 0 && len(e.UClasses) == 0 {
				emptyClass = true
			}
			if e.K == gspec.KRef && op {
				underOp = true
			}
			if e.K == gspec.KRef && pred {
				inPred = true
			}
			for _, s := range e.Sub {
				walk(s, op || e.K == gspec.KOpt || e.K == gspec.KStar || e.K == gspec.KPlus, pred || e.K == gspec.KAnd || e.K == gspec.KNot)
			}
		}
		walk(r.Expr, false, false)
	}
	if side == "must_accept" && emptyClass && kfOpen("KF-C07-EMPTYCLASS") {
		return "KF-C07-EMPTYCLASS"
	}
	if side == "must_reject" {
		if _, cyc := gspec.HasCycle(gspec.FirstOverNoThrow(g)); !cyc && kfOpen("KF-C07-THROW") {
			return "KF-C07-THROW"
		}
		if _, cyc := gspec.HasCycle(gspec.FirstShortCircuit(g)); !cyc && kfOpen("KF-C07-SHORTCIRCUIT") {
			return "KF-C07-SHORTCIRCUIT"
		}
		if inPred && kfOpen("KF-C07-PREDICATE") {
			return "KF-C07-PREDICATE"
		}
		if (underOp || emptyClass) && kfOpen("KF-C07-NULLABLE-UNDER-OP") {
			return "KF-C07-NULLABLE-UNDER-OP"
		}
	}
	return ""
}

func cliBuild(dir, text string) (exit int, stderr string, ok bool) {
	bin := os.Getenv("VTOOL_PIGEON")
	if bin == "" {
		return 0, "", false
	}
	in := filepath.Join(dir, "c07.peg")
	os.WriteFile(in, []byte(text), 0o644)
	ctx, cancel := context.WithTimeout(context.Background(), 60*time.Second)
	defer cancel()
	cmd := exec.CommandContext(ctx, bin, "-o", filepath.Join(dir, "c07.go"), in)
	var se bytes.Buffer
	cmd.Stderr = &se
	err := cmd.Run()
	if ee, ok := err.(*exec.ExitError); ok {
		return ee.ExitCode(), se.String(), true
	}
	return 0, se.String(), err == nil
}

func TestC07(t *testing.T) {
	sum := newSummary("C07")
	defer sum.write()
	dir := tmpDir(t)
	for _, f := range replayFiles() {
		b, err := os.ReadFile(f)
		if err != nil {
			continue
		}
		var rf struct {
			Case c07Case `json:"case"`
		}
		if json.Unmarshal(b, &rf) != nil {
			continue
		}
		g, err := gspec.FromJSON(rf.Case.Spec)
		if err != nil {
			continue
		}
		sum.Replayed = append(sum.Replayed, f)
		text := c07Text(g, rf.Case.Decoy, false)
		if k, _, _, _ := checkC07(g, text, rf.Case.Side == "must_reject", rf.Case.Side == "must_accept"); k != "" {
			sum.ReplayFails = append(sum.ReplayFails, f)
		}
	}
	if os.Getenv("VTOOL_REPLAY_ONLY") != "" {
		return
	}
	n := 0
	rapid.Check(t, func(rt *rapid.T) {
		g := gspec.LRHuntGen().Draw(rt, "grammar")
		decoy := ""
		if gspec.U(rt, 7, "decoy") == 0 {
			decoy = g.Rules[1+gspec.U(rt, len(g.Rules)-1, "decoyrule")].Name
		}
		text := c07Text(g, decoy, false)
		_, cyc := gspec.HasCycle(gspec.FirstOver(g))
		_, anyCycle := gspec.HasCycle(gspec.RefGraph(g))
		c := &c07Case{Spec: g.ToJSON(), Text: c07Text(g, decoy, true), Decoy: decoy}
		mustAccept := !cyc
		mustReject := false
		if cyc {
			if entry, in, rule, ok := reentryWitness(rt, g); ok {
				mustReject = true
				c.Witness = fmt.Sprintf("entry %s, input %q", entry, in)
				c.Rule = rule
			}
		}
		switch {
		case mustReject:
			c.Side = "must_reject"
		case mustAccept:
			c.Side = "must_accept"
		default:
			c.Side = "undecided"
		}
		if ex := c07Known(g, c.Side); ex != "" {
			sum.Excluded[ex]++
			return
		}
		kind, diff, rejected, _ := checkC07(g, text, mustReject, mustAccept)
		tags := []string{c.Side}
		if decoy != "" {
			tags = append(tags, "rule_defined_twice")
		}
		if rejected {
			tags = append(tags, "rejected_as_left_recursive")
		}
		sum.note(text, anyCycle, tags...)
		if anyCycle {
			sum.sample(map[string]any{"grammar": c.Text, "side": c.Side, "witness": c.Witness, "rejected": rejected})
		}
		if kind == "" && c.Side != "undecided" {
			n++
			if n%40 == 0 {
				// the same through the command: exit 5 and the diagnostic, or exit 0
				if code, se, ok := cliBuild(dir, text); ok {
					sum.Tags["cli_cross_checked"]++
					if mustReject && (code != 5 || !(strings.Contains(se, "left recursion") || strings.Contains(se, "leadership candidate"))) {
						kind, diff = "cli_lr_accepted", fmt.Sprintf("pigeon exit=%d stderr=%q, want exit 5 with the left-recursion diagnostic", code, truncT(se, 200))
					}
					if mustAccept && code != 0 {
						kind, diff = "cli_false_reject", fmt.Sprintf("pigeon exit=%d stderr=%q, want exit 0", code, truncT(se, 200))
					}
				}
			}
		}
		if kind != "" {
			sum.fail(kind, diff, c)
			rt.Fatalf("%s: %s", kind, diff)
		}
	})
}
