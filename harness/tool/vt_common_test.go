//go:build vtool

// Engine T: these files are copied next to a copy of /repo's package main (main.go,
// pigeon.go, reserved_words.go, unicode_classes.go taken from the working tree at check
// time) and compiled as its tests, so the front-end (ParseReader), main(), the optimizer
// and the builder are driven in-process.
package main

import (
	"bytes"
	"encoding/json"
	"fmt"
	"io"
	"os"
	"path/filepath"
	"runtime/debug"
	"sort"
	"strconv"
	"strings"
	"sync"
	"testing"
	"time"

	"golang.org/x/tools/imports"

	"github.com/mna/pigeon/ast"
	"github.com/mna/pigeon/builder"

	"verif/harness/gspec"
)

// ---------------------------------------------------------------------------------
// results

type tViolation struct {
	Kind string          `json:"kind"`
	Diff string          `json:"diff"`
	Case json.RawMessage `json:"case"`
}

type tSummary struct {
	Test        string           `json:"test"`
	Evaluations int              `json:"evaluations"`
	Nontrivial  int              `json:"distinct_nontrivial"`
	Tags        map[string]int   `json:"tags"`
	Samples     []map[string]any `json:"samples"`
	Excluded    map[string]int   `json:"excluded_known"`
	Violation   *tViolation      `json:"violation,omitempty"`
	Inconcl     []string         `json:"inconclusive,omitempty"`
	Replayed    []string         `json:"replayed,omitempty"`
	ReplayFails []string         `json:"replay_fails,omitempty"`

	seen   map[string]bool
	failed bool
	mu     sync.Mutex
}

func newSummary(name string) *tSummary {
	return &tSummary{Test: name, Tags: map[string]int{}, Excluded: map[string]int{}, seen: map[string]bool{}}
}

func (s *tSummary) note(key string, nontrivial bool, tags ...string) {
	if s.failed {
		return
	}
	s.Evaluations++
	for _, t := range tags {
		s.Tags[t]++
	}
	if nontrivial && !s.seen[key] {
		s.seen[key] = true
		s.Nontrivial++
	}
}

func (s *tSummary) sample(m map[string]any) {
	if s.failed || len(s.Samples) >= 4 {
		return
	}
	if s.Evaluations%17 == 3 || len(s.Samples) == 0 {
		s.Samples = append(s.Samples, m)
	}
}

func (s *tSummary) fail(kind, diff string, c any) {
	b, _ := json.Marshal(c)
	s.failed = true
	s.Violation = &tViolation{Kind: kind, Diff: diff, Case: b}
}

func (s *tSummary) write() {
	out := os.Getenv("VTOOL_OUT")
	if out == "" {
		return
	}
	b, _ := json.MarshalIndent(s, "", " ")
	os.WriteFile(out, b, 0o644)
}

func kfOpen(id string) bool {
	for _, k := range strings.Split(os.Getenv("VTOOL_KF"), ",") {
		if k == id {
			return true
		}
	}
	return false
}

func envInt(name string, def int) int {
	if v, err := strconv.Atoi(os.Getenv(name)); err == nil {
		return v
	}
	return def
}

// ---------------------------------------------------------------------------------
// running main() in-process

type exitSentinel struct{ code int }

type mainResult struct {
	Exit     int    `json:"exit"`
	Exited   bool   `json:"exited"`
	Panic    string `json:"panic,omitempty"`
	Stack    string `json:"stack,omitempty"`
	Stdout   []byte `json:"-"`
	Stderr   string `json:"stderr"`
	OutFile  []byte `json:"-"`
	TimedOut bool   `json:"timed_out,omitempty"`
}

var mainMu sync.Mutex

// runMain runs the tool's main() with the given arguments; stdin carries the grammar when
// stdin is non-nil. os.Args, os.Stdin, os.Stdout, os.Stderr and the package's exit hook
// are redirected for the duration of the call.
func runMain(dir string, args []string, stdin []byte, limit time.Duration) *mainResult {
	mainMu.Lock()
	defer mainMu.Unlock()
	res := &mainResult{}
	inF, _ := os.CreateTemp(dir, "stdin")
	inF.Write(stdin)
	inF.Seek(0, io.SeekStart)
	outF, _ := os.CreateTemp(dir, "stdout")
	errF, _ := os.CreateTemp(dir, "stderr")
	defer func() {
		for _, f := range []*os.File{inF, outF, errF} {
			f.Close()
			os.Remove(f.Name())
		}
	}()
	oldArgs, oldIn, oldOut, oldErr, oldExit := os.Args, os.Stdin, os.Stdout, os.Stderr, exit
	os.Args = append([]string{"pigeon"}, args...)
	os.Stdin, os.Stdout, os.Stderr = inF, outF, errF
	exit = func(code int) { panic(exitSentinel{code}) }
	done := make(chan struct{})
	go func() {
		defer close(done)
		defer func() {
			if r := recover(); r != nil {
				if s, ok := r.(exitSentinel); ok {
					res.Exited = true
					res.Exit = s.code
					return
				}
				res.Panic = fmt.Sprint(r)
				res.Stack = string(debug.Stack())
			}
		}()
		main()
	}()
	select {
	case <-done:
	case <-time.After(limit):
		res.TimedOut = true
	}
	if res.TimedOut {
		// the abandoned goroutine goes on running main(): when it gets to call exit (for instance
		// because its files were closed under it) it must not end this process - the caller
		// writes its summary and ends the process itself. The hook parks it for good.
		exit = func(int) { select {} }
		os.Args, os.Stdin, os.Stdout, os.Stderr = oldArgs, oldIn, oldOut, oldErr
		return res
	}
	os.Args, os.Stdin, os.Stdout, os.Stderr, exit = oldArgs, oldIn, oldOut, oldErr, oldExit
	// main() closes the stdout it wrote to: read the files back by name
	res.Stdout, _ = os.ReadFile(outF.Name())
	eb, _ := os.ReadFile(errF.Name())
	res.Stderr = string(eb)
	return res
}

// ---------------------------------------------------------------------------------
// the generation pipeline as main() wires it, callable repeatedly (C19, C07)

type genFlags struct {
	OptimizeGrammar bool     `json:"optimize_grammar,omitempty"`
	OptimizeParser  bool     `json:"optimize_parser,omitempty"`
	BasicLatin      bool     `json:"basic_latin,omitempty"`
	LeftRec         bool     `json:"support_left_recursion,omitempty"`
	Nolint          bool     `json:"nolint,omitempty"`
	Cache           bool     `json:"cache,omitempty"`
	Recv            string   `json:"recv,omitempty"`
	AltEntries      []string `json:"alt_entries,omitempty"`
}

func (f genFlags) args() []string {
	var a []string
	add := func(on bool, s string) {
		if on {
			a = append(a, s)
		}
	}
	add(f.OptimizeGrammar, "-optimize-grammar")
	add(f.OptimizeParser, "-optimize-parser")
	add(f.BasicLatin, "-optimize-basic-latin")
	add(f.LeftRec, "-support-left-recursion")
	add(f.Nolint, "-nolint")
	add(f.Cache, "-cache")
	if f.Recv != "" {
		a = append(a, "-receiver-name", f.Recv)
	}
	if len(f.AltEntries) > 0 {
		a = append(a, "-alternate-entrypoints", strings.Join(f.AltEntries, ","))
	}
	return a
}

// generate runs parse -> optimize -> build -> format exactly like main() does.
func generate(text []byte, f genFlags) (out []byte, stage string, err error) {
	return generateOpt(text, f, true)
}

// generateOpt optionally skips the final goimports pass (a deterministic function of the
// builder output, but by far the most expensive step).
func generateOpt(text []byte, f genFlags, doFormat bool) (out []byte, stage string, err error) {
	defer func() {
		if r := recover(); r != nil {
			stage = "panic"
			err = fmt.Errorf("panic: %v\n%s", r, debug.Stack())
		}
	}()
	g, err := ParseReader("g.peg", bytes.NewReader(text), Memoize(f.Cache))
	if err != nil {
		return nil, "parse", err
	}
	grammar := g.(*ast.Grammar)
	if f.OptimizeGrammar {
		ast.Optimize(grammar, f.AltEntries...)
	}
	recv := f.Recv
	if recv == "" {
		recv = "c"
	}
	var buf bytes.Buffer
	if err := builder.BuildParser(&buf, grammar, builder.ReceiverName(recv), builder.Optimize(f.OptimizeParser),
		builder.BasicLatinLookupTable(f.BasicLatin), builder.Nolint(f.Nolint), builder.SupportLeftRecursion(f.LeftRec)); err != nil {
		return nil, "build", err
	}
	if !doFormat {
		return buf.Bytes(), "ok", nil
	}
	formatted, err := imports.Process("filename", buf.Bytes(), &imports.Options{TabWidth: 8, TabIndent: true, Comments: true, Fragment: true})
	if err != nil {
		return buf.Bytes(), "format", err
	}
	return formatted, "ok", nil
}

// ---------------------------------------------------------------------------------
// pigeon AST -> gspec (structure, values, positions)

func pos3(p ast.Pos) *[3]int { return &[3]int{p.Line, p.Col, p.Off} }

func toSpecExpr(e ast.Expression) *gspec.Expr {
	switch x := e.(type) {
	case *ast.ChoiceExpr:
		n := &gspec.Expr{K: gspec.KChoice, P: pos3(x.Pos())}
		for _, a := range x.Alternatives {
			n.Sub = append(n.Sub, toSpecExpr(a))
		}
		return n
	case *ast.SeqExpr:
		n := &gspec.Expr{K: gspec.KSeq, P: pos3(x.Pos())}
		for _, a := range x.Exprs {
			n.Sub = append(n.Sub, toSpecExpr(a))
		}
		return n
	case *ast.ActionExpr:
		n := &gspec.Expr{K: gspec.KAction, P: pos3(x.Pos()), Sub: []*gspec.Expr{toSpecExpr(x.Expr)}}
		if x.Code != nil {
			n.Code = x.Code.Val
			n.CodeP = pos3(x.Code.Pos())
		}
		return n
	case *ast.LabeledExpr:
		n := &gspec.Expr{K: gspec.KLabel, P: pos3(x.Pos()), Sub: []*gspec.Expr{toSpecExpr(x.Expr)}}
		if x.Label != nil {
			n.Name = x.Label.Val
			n.LabelP = pos3(x.Label.Pos())
		}
		return n
	case *ast.AndExpr:
		return &gspec.Expr{K: gspec.KAnd, P: pos3(x.Pos()), Sub: []*gspec.Expr{toSpecExpr(x.Expr)}}
	case *ast.NotExpr:
		return &gspec.Expr{K: gspec.KNot, P: pos3(x.Pos()), Sub: []*gspec.Expr{toSpecExpr(x.Expr)}}
	case *ast.ZeroOrOneExpr:
		return &gspec.Expr{K: gspec.KOpt, P: pos3(x.Pos()), Sub: []*gspec.Expr{toSpecExpr(x.Expr)}}
	case *ast.ZeroOrMoreExpr:
		return &gspec.Expr{K: gspec.KStar, P: pos3(x.Pos()), Sub: []*gspec.Expr{toSpecExpr(x.Expr)}}
	case *ast.OneOrMoreExpr:
		return &gspec.Expr{K: gspec.KPlus, P: pos3(x.Pos()), Sub: []*gspec.Expr{toSpecExpr(x.Expr)}}
	case *ast.RuleRefExpr:
		n := &gspec.Expr{K: gspec.KRef, P: pos3(x.Pos())}
		if x.Name != nil {
			n.Name = x.Name.Val
		}
		return n
	case *ast.AndCodeExpr:
		n := &gspec.Expr{K: gspec.KAndCode, P: pos3(x.Pos())}
		if x.Code != nil {
			n.Code = x.Code.Val
			n.CodeP = pos3(x.Code.Pos())
		}
		return n
	case *ast.NotCodeExpr:
		n := &gspec.Expr{K: gspec.KNotCode, P: pos3(x.Pos())}
		if x.Code != nil {
			n.Code = x.Code.Val
			n.CodeP = pos3(x.Code.Pos())
		}
		return n
	case *ast.StateCodeExpr:
		n := &gspec.Expr{K: gspec.KState, P: pos3(x.Pos())}
		if x.Code != nil {
			n.Code = x.Code.Val
			n.CodeP = pos3(x.Code.Pos())
		}
		return n
	case *ast.LitMatcher:
		return &gspec.Expr{K: gspec.KLit, P: pos3(x.Pos()), Val: []byte(x.Val), IC: x.IgnoreCase}
	case *ast.CharClassMatcher:
		return &gspec.Expr{K: gspec.KClass, P: pos3(x.Pos()), Chars: append([]rune(nil), x.Chars...), Ranges: append([]rune(nil), x.Ranges...),
			UClasses: append([]string(nil), x.UnicodeClasses...), Inv: x.Inverted, IC: x.IgnoreCase, Code: x.Val}
	case *ast.AnyMatcher:
		return &gspec.Expr{K: gspec.KAny, P: pos3(x.Pos())}
	case *ast.ThrowExpr:
		return &gspec.Expr{K: gspec.KThrow, P: pos3(x.Pos()), Name: x.Label}
	case *ast.RecoveryExpr:
		n := &gspec.Expr{K: gspec.KRecover, P: pos3(x.Pos()), Sub: []*gspec.Expr{toSpecExpr(x.Expr), toSpecExpr(x.RecoverExpr)}}
		for _, l := range x.Labels {
			n.Labels = append(n.Labels, string(l))
		}
		return n
	case nil:
		return &gspec.Expr{K: "nil"}
	}
	return &gspec.Expr{K: gspec.Kind(fmt.Sprintf("?%T", e))}
}

// toSpec converts the front-end's AST into the harness model (with positions).
func toSpec(g *ast.Grammar) *gspec.Grammar {
	out := &gspec.Grammar{}
	if g.Init != nil {
		out.Init = g.Init.Val
		out.InitP = pos3(g.Init.Pos())
	}
	for _, r := range g.Rules {
		nr := &gspec.Rule{P: pos3(r.Pos())}
		if r.Name != nil {
			nr.Name = r.Name.Val
		}
		if r.DisplayName != nil {
			nr.DisplayRaw = r.DisplayName.Val
			nr.DisplayP = pos3(r.DisplayName.Pos())
			if u, err := strconv.Unquote(r.DisplayName.Val); err == nil {
				nr.Display = u
			} else {
				nr.Display = r.DisplayName.Val
			}
		}
		nr.Expr = toSpecExpr(r.Expr)
		out.Rules = append(out.Rules, nr)
	}
	return out
}

// dump renders a spec canonically: structure and values, optionally positions. Code
// blocks and class source text are included verbatim.
func dump(g *gspec.Grammar, withPos bool) string {
	var b strings.Builder
	p := func(x *[3]int) string {
		if !withPos || x == nil {
			return ""
		}
		return fmt.Sprintf("@%d:%d(%d)", x[0], x[1], x[2])
	}
	if g.Init != "" {
		fmt.Fprintf(&b, "init%s %q\n", p(g.InitP), g.Init)
	}
	var walk func(e *gspec.Expr, ind string)
	walk = func(e *gspec.Expr, ind string) {
		fmt.Fprintf(&b, "%s%s%s", ind, e.K, p(e.P))
		switch e.K {
		case gspec.KLit:
			fmt.Fprintf(&b, " %q ic=%v", e.Val, e.IC)
		case gspec.KClass:
			fmt.Fprintf(&b, " chars=%q ranges=%q ucl=%v inv=%v ic=%v", string(e.Chars), string(e.Ranges), e.UClasses, e.Inv, e.IC)
		case gspec.KRef, gspec.KThrow:
			fmt.Fprintf(&b, " %s", e.Name)
		case gspec.KLabel:
			fmt.Fprintf(&b, " %s%s", e.Name, p(e.LabelP))
		case gspec.KRecover:
			fmt.Fprintf(&b, " labels=%v", e.Labels)
		case gspec.KAction, gspec.KAndCode, gspec.KNotCode, gspec.KState:
			fmt.Fprintf(&b, " code%s %q", p(e.CodeP), e.Code)
		}
		b.WriteString("\n")
		for _, s := range e.Sub {
			walk(s, ind+"  ")
		}
	}
	for _, r := range g.Rules {
		fmt.Fprintf(&b, "rule%s %s display%s %q\n", p(r.P), r.Name, p(r.DisplayP), r.Display)
		walk(r.Expr, "  ")
	}
	return b.String()
}

func firstDiff(a, b string) string {
	la, lb := strings.Split(a, "\n"), strings.Split(b, "\n")
	for i := 0; i < len(la) || i < len(lb); i++ {
		x, y := "<none>", "<none>"
		if i < len(la) {
			x = la[i]
		}
		if i < len(lb) {
			y = lb[i]
		}
		if x != y {
			return fmt.Sprintf("line %d: want %q, got %q", i+1, strings.TrimSpace(x), strings.TrimSpace(y))
		}
	}
	return ""
}

func kindsOf(g *gspec.Grammar) []string {
	m := map[string]bool{}
	for _, r := range g.Rules {
		gspec.Walk(r.Expr, func(e *gspec.Expr) { m[string(e.K)] = true })
	}
	var out []string
	for k := range m {
		out = append(out, k)
	}
	sort.Strings(out)
	return out
}

func tmpDir(t testing.TB) string {
	d := os.Getenv("VTOOL_TMP")
	if d == "" {
		return t.TempDir()
	}
	sub, err := os.MkdirTemp(d, "t")
	if err != nil {
		t.Fatal(err)
	}
	t.Cleanup(func() { os.RemoveAll(sub) })
	return sub
}

func replayFiles() []string {
	dir := os.Getenv("VTOOL_REPLAYS")
	if dir == "" {
		return nil
	}
	if strings.Contains(dir, string(os.PathListSeparator)) {
		return filepath.SplitList(dir)
	}
	if st, err := os.Stat(dir); err == nil && !st.IsDir() {
		return []string{dir}
	}
	m, _ := filepath.Glob(filepath.Join(dir, "*.json"))
	sort.Strings(m)
	return m
}

// maxParenDepth is the deepest nesting of parentheses in the text (ignoring quoting: an
// over-approximation). Without -cache the front-end re-parses a parenthesised primary for
// every alternative of the rules above it: its running time doubles with every level (20
// levels: minutes). doc.go documents this ("exponential parsing time in pathological cases")
// and names the remedy, the -cache flag.
func maxParenDepth(text []byte) int {
	d, m := 0, 0
	for _, c := range text {
		switch c {
		case '(':
			d++
			if d > m {
				m = d
			}
		case ')':
			if d > 0 {
				d--
			}
		}
	}
	return m
}
