//go:build vtool

package main

import (
	"bytes"
	"context"
	"encoding/json"
	"fmt"
	goparser "go/parser"
	"go/token"
	"os"
	"os/exec"
	"path/filepath"
	"sort"
	"strings"
	"testing"
	"time"

	"pgregory.net/rapid"

	"verif/harness/gspec"
)

// C13: the tool is total.

type c13Case struct {
	Text     []byte   `json:"text"`
	TextQ    string   `json:"text_quoted,omitempty"`
	Flags    genFlags `json:"flags"`
	Extra    []string `json:"extra,omitempty"` // -x, -no-recover
	ViaStdin bool     `json:"via_stdin,omitempty"`
	ToStdout bool     `json:"to_stdout,omitempty"`
	Kind     string   `json:"kind"`
}

var toolProfiles = []string{"core", "codeblocks", "stateful", "throwrecover", "frontend", "optbait", "names", "errors"}

var spliceTokens = []string{"%{", "%{L}", "//{", "//{L} ", "{", "}", "\"", "'", "`", "[", "]", "\\p{", "\\pL", "\\x", "\\u00", "(", ")", "/", "&", "!", "#", "*", "+", "?", ":", "=", "<-", "←", ";", "\n", "//", "/*", "*/", "i",
	"A", "Undefined", "func", "x:", "type:", "\x00", "\xff", "é", "\\400", "^", "-", ".",
	"\\p{L]", "[\\p{Lu]]", "\\p{", "[\\pL", "\\u12", "\\U0011", "%{L", "//{L", "{ \"", "'\\", "`",
	// code blocks at their smallest: nothing, one line break, only white space
	"{}", "{\n}", " {\n} ", "&{\n}", "#{\n}", "{\n\n}", "{\r\n}", "{ }", "{;}"}

func mutateText(t *rapid.T, b []byte) []byte {
	n := 1 + gspec.U(t, 3, "nmut")
	for i := 0; i < n; i++ {
		switch gspec.U(t, 5, "mutkind") {
		case 0: // delete a range
			if len(b) > 0 {
				p := gspec.U(t, len(b), "mpos")
				l := 1 + gspec.U(t, 6, "mlen")
				if p+l > len(b) {
					l = len(b) - p
				}
				b = append(b[:p:p], b[p+l:]...)
			}
		case 1, 2: // splice a token
			p := gspec.U(t, len(b)+1, "mpos")
			tok := gspec.Pick(t, spliceTokens, "mtok")
			b = append(b[:p:p], append([]byte(tok), b[p:]...)...)
		case 3: // replace a byte
			if len(b) > 0 {
				p := gspec.U(t, len(b), "mpos")
				b = append([]byte{}, b...)
				b[p] = byte(gspec.U(t, 256, "mbyte"))
			}
		case 4: // duplicate a line (duplicate rules)
			lines := bytes.Split(b, []byte("\n"))
			p := gspec.U(t, len(lines), "mline")
			lines = append(lines[:p+1:p+1], lines[p:]...)
			b = bytes.Join(lines, []byte("\n"))
		}
	}
	return b
}

func drawGrammarText(t *rapid.T) ([]byte, string, *gspec.Grammar) {
	k := gspec.U(t, 100, "textkind")
	switch {
	case k < 8:
		n := gspec.U(t, 24, "nbytes")
		b := make([]byte, n)
		for i := range b {
			b[i] = byte(gspec.U(t, 256, "byte"))
		}
		return b, "bytes", nil
	case k < 9:
		// long chains of rules, each mentioning the next one several times in one sequence (an
		// operator-precedence ladder): nothing in the tool may be exponential in their length
		n := 20 + gspec.U(t, 45, "ladder")
		var b strings.Builder
		for i := 0; i < n; i++ {
			switch gspec.U(t, 3, "ladderkind") {
			case 0:
				fmt.Fprintf(&b, "L%d = L%d ( _ \"+\" _ L%d )*\n", i, i+1, i+1)
			case 1:
				fmt.Fprintf(&b, "L%d = L%d L%d?\n", i, i+1, i+1)
			default:
				fmt.Fprintf(&b, "L%d = a:L%d b:( \"x\" L%d )? { return nil, nil }\n", i, i+1, i+1)
			}
		}
		fmt.Fprintf(&b, "L%d = [0-9]+\n_ = \" \"*\n", n)
		return []byte(b.String()), "tiny", nil
	case k < 10:
		// every class name the front-end's table accepts must also be known to the builder
		// (the two lists are separate files)
		if names := acceptedClassNames(); len(names) > 0 {
			n := gspec.Pick(t, names, "classname")
			return []byte(gspec.Pick(t, []string{"A = [\\p{" + n + "}]", "A = [^\\p{" + n + "}a]i", "A = 'x' [\\p{" + n + "}\\p{" + gspec.Pick(t, names, "classname2") + "}]*"}, "classtext")), "tiny", nil
		}
		fallthrough
	case k < 14:
		return []byte(gspec.Pick(t, []string{"", "\n", "A", "A =", "A = ", "{", "{}", "{}\nA='a'", "A = 'a'", "A = B", "A = A", "A = 'a' A = 'b'", "A = %{x}", "A = 'a' //{x} 'b'", "=", "A 'x' = .", "A = [", "A = \"", "A = 'ab'", "A = []", "A = [^]", "A = ''", "A = [\\p{L]]", "A = [\\p{Greek]x]", "A = \"\\400\"", "A = 'a' {", "A = %{", "A = 'a' //{",
			"A = %{x} //{x} B\nB = 'b'", "A = ( %{x} //{x} B ) 'a'\nB = 'b' / A", "A = %{x} //{x, y} %{y}",
			"A = 'a' {\n}", "A = 'a' {}", "A = &{\n} 'a'", "A = #{\n} 'a'", "{\n}\nA = 'a' {\n}", "A = 'a' {\n\n}", "A = 'a' { }",
			// hyphens next to class escapes and ranges (every one of them a legal class)
			"A = [a-\\pL]", "A = [\\pL_-\\p{Nd}]*", "A = [a\\pL-z]", "A = [-\\pL-]", "A = [\\pL-]", "A = [\\pL--a]", "A = [a-c-\\pLe]i", "A = [^a-\\p{Lu}]", "A = [a-]", "A = [--]", "A = [a-c-e-g]", "A = [a-\\pL-\\pN]"}, "tiny")), "tiny", nil
	}
	prof := gspec.Pick(t, toolProfiles, "profile")
	g := gspec.GrammarGen(gspec.Profile(prof)).Draw(t, "grammar")
	text := []byte(gspec.Print(g, gspec.PrintOpts{StubCode: true}))
	if k < 55 {
		return mutateText(t, text), "mutated:" + prof, g
	}
	return text, "valid:" + prof, g
}

var classNamesOnce []string

// acceptedClassNames reads the Unicode class names the front-end accepts from the tree under
// test (unicode_classes.go is compiled into this binary's package: the map itself).
func acceptedClassNames() []string {
	if classNamesOnce == nil {
		for n := range unicodeClasses {
			classNamesOnce = append(classNamesOnce, n)
		}
		sort.Strings(classNamesOnce)
	}
	return classNamesOnce
}

func drawFlags(t *rapid.T, g *gspec.Grammar) genFlags {
	var f genFlags
	bits := gspec.U(t, 64, "flagbits")
	if gspec.U(t, 4, "noflags") == 0 {
		bits = 0
	}
	f.OptimizeGrammar = bits&1 != 0
	f.OptimizeParser = bits&2 != 0
	f.BasicLatin = bits&4 != 0
	f.LeftRec = bits&8 != 0
	f.Nolint = bits&16 != 0
	f.Cache = bits&32 != 0
	switch gspec.U(t, 10, "recvkind") {
	case 0:
		f.Recv = gspec.Pick(t, []string{"p", "cur", "stack", "ctx", "1x", "a b", "é", "_"}, "recv")
	}
	if gspec.U(t, 4, "altentries") == 0 {
		names := []string{"Nope"}
		if g != nil {
			for _, r := range g.Rules {
				names = append(names, r.Name)
			}
		}
		// (empty items - "A,,", ",", ",,B" - are part of what the flag accepts)
		names = append(names, "", "")
		n := 1 + gspec.U(t, 4, "nalt")
		for i := 0; i < n; i++ {
			f.AltEntries = append(f.AltEntries, gspec.Pick(t, names, "altname"))
		}
	}
	return f
}

func drawC13(t *rapid.T) *c13Case {
	text, kind, g := drawGrammarText(t)
	c := &c13Case{Text: text, Kind: kind, Flags: drawFlags(t, g)}
	if maxParenDepth(text) > 10 {
		c.Flags.Cache = true // documented: deep nesting needs -cache (see maxParenDepth)
	}
	if gspec.U(t, 10, "x") == 0 {
		c.Extra = append(c.Extra, "-x")
	}
	if gspec.U(t, 10, "norecover") == 0 {
		c.Extra = append(c.Extra, "-no-recover")
	}
	if gspec.U(t, 12, "debug") == 0 && len(c.Text) < 1500 {
		c.Extra = append(c.Extra, "-debug")
	}
	c.ViaStdin = gspec.U(t, 3, "stdin") == 0
	c.ToStdout = gspec.U(t, 3, "stdout") == 0 && !hasArg(c.Extra, "-debug")
	return c
}

func hasArg(a []string, s string) bool {
	for _, x := range a {
		if x == s {
			return true
		}
	}
	return false
}

func looksLikeTrace(s string) bool {
	return strings.Contains(s, "goroutine ") || strings.Contains(s, "panic:") || strings.Contains(s, "runtime error")
}

// checkC13 runs one case in-process and applies the validity predicate. It returns
// (kind, diff) of a violation, tags, and whether the case was non-trivial.
func checkC13(dir string, c *c13Case) (kind, diff string, tags []string, nontrivial bool, timedOut bool, res *mainResult, out []byte) {
	args := append(c.Flags.args(), c.Extra...)
	outPath := filepath.Join(dir, "out.go")
	// the -o file exists already and is longer than anything the tool will write: "writes a
	// complete parser" means the file holds the parser and nothing else afterwards
	stale := bytes.Repeat([]byte("stale ) line } of an older, longer file\n"), 12000)
	os.WriteFile(outPath, stale, 0o644)
	if !c.ToStdout {
		args = append(args, "-o", outPath)
	}
	var stdin []byte
	if c.ViaStdin {
		stdin = c.Text
	} else {
		in := filepath.Join(dir, "g.peg")
		os.WriteFile(in, c.Text, 0o644)
		args = append(args, in)
	}
	res = runMain(dir, args, stdin, 20*time.Second)
	tags = append(tags, strings.SplitN(c.Kind, ":", 2)[0])
	if res.TimedOut {
		return "", "", tags, false, true, res, nil
	}
	if c.ToStdout {
		out = res.Stdout
	} else {
		out, _ = os.ReadFile(outPath)
		if bytes.Equal(out, stale) {
			out = nil // the tool did not write (it failed, or -x)
		}
	}
	code := 0
	if res.Exited {
		code = res.Exit
	}
	tags = append(tags, fmt.Sprintf("exit_%d", code))
	if res.Panic != "" && hasArg(c.Extra, "-no-recover") {
		// documented: with -no-recover a panic of the front-end is not converted to an error
		return "", "", append(tags, "panic_with_no_recover"), false, false, res, out
	}
	if res.Panic != "" {
		return "panic", fmt.Sprintf("unrecovered panic: %s\n%s", res.Panic, lastLinesT(res.Stack, 12)), tags, false, false, res, out
	}
	noBuild := hasArg(c.Extra, "-x")
	diag := strings.Contains(res.Stderr, "parse error(s)") || strings.Contains(res.Stderr, "build error") ||
		strings.Contains(res.Stderr, "format error") || strings.Contains(res.Stderr, "argument error") || strings.Contains(res.Stderr, "write error")
	if code != 0 {
		if strings.TrimSpace(res.Stderr) == "" {
			return "silent_failure", fmt.Sprintf("exit status %d without a diagnostic on stderr", code), tags, false, false, res, out
		}
		if looksLikeTrace(res.Stderr) && !hasArg(c.Extra, "-no-recover") {
			return "trace", fmt.Sprintf("exit status %d with a Go trace on stderr: %s", code, truncT(res.Stderr, 300)), tags, false, false, res, out
		}
	} else {
		if diag {
			return "rejected_exit0", fmt.Sprintf("a diagnostic was printed (%s) but the exit status is 0", truncT(res.Stderr, 200)), tags, false, false, res, out
		}
		if !noBuild {
			if !bytes.Contains(out, []byte("func Parse(")) {
				return "incomplete_output", "exit status 0 but the output does not contain func Parse(", tags, false, false, res, out
			}
			fset := token.NewFileSet()
			if _, err := goparser.ParseFile(fset, "out.go", out, 0); err != nil {
				if _, err2 := goparser.ParseFile(fset, "out.go", append([]byte("package p\n"), out...), 0); err2 != nil {
					return "invalid_go", fmt.Sprintf("exit status 0 but the output is not Go: %v", err2), tags, false, false, res, out
				}
				tags = append(tags, "no_package_clause")
			}
		}
	}
	parsed := !strings.Contains(res.Stderr, "parse error(s)")
	nondefault := len(c.Flags.args()) > 0
	nontrivial = parsed && nondefault && !noBuild && len(c.Text) > 0
	if parsed && c.Flags.OptimizeGrammar {
		tags = append(tags, "reached_optimizer")
	}
	if code == 5 {
		tags = append(tags, "build_error")
	}
	return "", "", tags, nontrivial, false, res, out
}

// crossCheckCLI runs the same case through the real binary and compares what a user sees.
func crossCheckCLI(dir string, c *c13Case, res *mainResult, out []byte) string {
	bin := os.Getenv("VTOOL_PIGEON")
	if bin == "" {
		return ""
	}
	args := append(c.Flags.args(), c.Extra...)
	outPath := filepath.Join(dir, "out-cli.go")
	os.Remove(outPath)
	if !c.ToStdout {
		args = append(args, "-o", outPath)
	}
	ctx, cancel := context.WithTimeout(context.Background(), 60*time.Second)
	defer cancel()
	if !c.ViaStdin {
		args = append(args, filepath.Join(dir, "g.peg"))
	}
	cmd := exec.CommandContext(ctx, bin, args...)
	if c.ViaStdin {
		cmd.Stdin = bytes.NewReader(c.Text)
	}
	var so, se bytes.Buffer
	cmd.Stdout, cmd.Stderr = &so, &se
	err := cmd.Run()
	if ctx.Err() != nil {
		return "the pigeon command did not terminate within 60 s"
	}
	code := 0
	if ee, ok := err.(*exec.ExitError); ok {
		code = ee.ExitCode()
	} else if err != nil {
		return ""
	}
	want := 0
	if res.Exited {
		want = res.Exit
	}
	if code != want {
		return fmt.Sprintf("exit status of the command is %d, in-process main() gave %d (stderr %q)", code, want, truncT(se.String(), 200))
	}
	cliOut := so.Bytes()
	if !c.ToStdout {
		cliOut, _ = os.ReadFile(outPath)
	}
	if !bytes.Equal(cliOut, out) && !strings.Contains(se.String(), "g.peg") {
		return fmt.Sprintf("output of the command differs from in-process main() (%d vs %d bytes)", len(cliOut), len(out))
	}
	return ""
}

func truncT(s string, n int) string {
	if len(s) <= n {
		return s
	}
	return s[:n] + "…"
}

func lastLinesT(s string, n int) string {
	l := strings.Split(strings.TrimRight(s, "\n"), "\n")
	if len(l) > n {
		l = l[:n]
	}
	return strings.Join(l, "\n")
}

// inlineBlowup is the matcher of the recorded finding KF-C13-OPTBLOWUP: -optimize-grammar
// inlines every rule that refers to no other rule into all its references, again and again
// until nothing changes, whatever the size: a chain of rules that each mention the next one
// twice (L0 = L1 L1; L1 = L2 L2; ...; L40 = 'a') is expanded to 2^40 nodes - the tool runs
// out of memory. The predicate computes the size of the fully inlined grammar (rules that
// reach no cycle are inlined) and reports more than 300000 nodes. Such a case is never run
// in-process (this test binary has no memory limit).
func inlineBlowup(text []byte, f genFlags) bool {
	if !f.OptimizeGrammar {
		return false
	}
	g, err := parseToSpec(text)
	if err != nil || g == nil {
		return false
	}
	const limit = 300000.0
	state := map[string]int{}
	inl := map[string]bool{}
	size := map[string]float64{}
	var visit func(name string) (bool, float64)
	visit = func(name string) (bool, float64) {
		r := g.Rule(name)
		if r == nil {
			return false, 1
		}
		switch state[name] {
		case 1:
			return false, 1 // on a cycle: never inlined
		case 2:
			return inl[name], size[name]
		}
		state[name] = 1
		ok, n := true, 0.0
		gspec.Walk(r.Expr, func(e *gspec.Expr) {
			n++
			if e.K == gspec.KRef {
				i, sz := visit(e.Name)
				if i {
					n += sz
				} else {
					ok = false
				}
			}
		})
		if n > 1e18 {
			n = 1e18
		}
		state[name], inl[name], size[name] = 2, ok, n
		return ok, n
	}
	for _, r := range g.Rules {
		if _, n := visit(r.Name); n > limit {
			return true
		}
	}
	return false
}

// blowupThroughCommand runs a KF-C13-OPTBLOWUP case through the command under a memory limit
// and reports whether the tool still fails to finish (true = the finding reproduces).
func blowupThroughCommand(dir string, c *c13Case) bool {
	bin := os.Getenv("VTOOL_PIGEON")
	if bin == "" {
		return true
	}
	in := filepath.Join(dir, "blowup.peg")
	os.WriteFile(in, c.Text, 0o644)
	ctx, cancel := context.WithTimeout(context.Background(), 40*time.Second)
	defer cancel()
	sh := "ulimit -v 3000000; exec " + bin + " " + strings.Join(c.Flags.args(), " ") + " -o /dev/null " + in
	cmd := exec.CommandContext(ctx, "bash", "-c", sh)
	err := cmd.Run()
	if ctx.Err() != nil {
		return true
	}
	if ee, ok := err.(*exec.ExitError); ok && ee.ExitCode() >= 0 && ee.ExitCode() != 2 {
		return false // a diagnostic and a clean exit
	}
	return err != nil
}

// polluted is set after a case ran into the time limit: its goroutine keeps running main().
var polluted bool

func TestC13(t *testing.T) {
	sum := newSummary("C13")
	defer sum.write()
	dir := tmpDir(t)
	// saved replays first (plain regression inputs, no library involved)
	for _, f := range replayFiles() {
		b, err := os.ReadFile(f)
		if err != nil {
			continue
		}
		var rf struct {
			Case c13Case `json:"case"`
		}
		if json.Unmarshal(b, &rf) != nil {
			continue
		}
		sum.Replayed = append(sum.Replayed, f)
		if inlineBlowup(rf.Case.Text, rf.Case.Flags) {
			if blowupThroughCommand(dir, &rf.Case) {
				sum.ReplayFails = append(sum.ReplayFails, f)
			}
			continue
		}
		k, _, _, _, to, _, _ := checkC13(dir, &rf.Case)
		if k != "" || to {
			sum.ReplayFails = append(sum.ReplayFails, f)
		}
		if to {
			// the abandoned main() goroutine keeps running: end this process, the driver
			// starts another one for the remaining files
			sum.write()
			os.Exit(0)
		}
	}
	if os.Getenv("VTOOL_REPLAY_ONLY") != "" {
		return
	}
	n := 0
	rapid.Check(t, func(rt *rapid.T) {
		c := drawC13(rt)
		if inlineBlowup(c.Text, c.Flags) {
			if kfOpen("KF-C13-OPTBLOWUP") {
				sum.Excluded["KF-C13-OPTBLOWUP"]++
				return
			}
			// (finding closed: the tool must cope - but through the command, under a memory limit)
			if blowupThroughCommand(dir, c) {
				sum.fail("hang", "the command ran out of time or memory on a grammar whose inlined form is huge", c)
				rt.Fatalf("hang")
			}
			return
		}
		kind, diff, tags, nontrivial, timedOut, res, out := checkC13(dir, c)
		if polluted {
			return
		}
		if timedOut {
			// inconclusive here; the driver confirms through the command with a 60 s limit. The
			// abandoned main() goroutine still owns the redirected descriptors: stop this shard.
			b, _ := json.Marshal(c)
			sum.Inconcl = append(sum.Inconcl, string(b))
			polluted = true
			sum.write()
			os.Exit(0)
		}
		sum.note(string(c.Text)+strings.Join(c.Flags.args(), " "), nontrivial, tags...)
		if nontrivial {
			sum.sample(map[string]any{"kind": c.Kind, "args": append(c.Flags.args(), c.Extra...), "grammar": truncT(string(c.Text), 400), "exit": res.Exit, "stderr": truncT(res.Stderr, 160)})
		}
		if kind == "" && res.Panic == "" {
			n++
			if n%10 == 0 {
				if d := crossCheckCLI(dir, c, res, out); d != "" {
					kind, diff = "cli_vs_inprocess", d
				}
				sum.Tags["cli_cross_checked"]++
			}
			if kind == "" && n%6 == 3 && maxParenDepth(c.Text) <= 10 {
				// -cache only changes how fast the grammar text is read: the same text and flags
				// with the flag toggled end the same way (accepted or refused)
				c2 := *c
				c2.Flags.Cache = !c.Flags.Cache
				_, _, _, _, to2, res2, _ := checkC13(dir, &c2)
				sum.Tags["cache_toggled"]++
				if !to2 && res2.Panic == "" && (res.Exit == 0) != (res2.Exit == 0) {
					kind, diff = "cache_changes_verdict", fmt.Sprintf("exit %d with %v, exit %d with -cache toggled (stderr %s | %s)", res.Exit, c.Flags.args(), res2.Exit, truncT(res.Stderr, 150), truncT(res2.Stderr, 150))
				}
				if to2 {
					// (inconclusive; the abandoned goroutine owns the descriptors: stop as above)
					polluted = true
					sum.write()
					os.Exit(0)
				}
			}
		}
		if kind != "" {
			c.TextQ = fmt.Sprintf("%q", c.Text)
			sum.fail(kind, diff, c)
			rt.Fatalf("%s: %s", kind, diff)
		}
	})
}

// FuzzToolTotal is the coverage-guided variant (thorough tier): arbitrary bytes and flag bits.
func FuzzToolTotal(f *testing.F) {
	for _, s := range []string{"A = 'a'", "{package p}\nA = B+ / &C\nB = [a-z]i\nC = .", "A = A 'x' / 'y'", "A = x:'a' { return x, nil }", "A = 'a' //{L} 'b'\nB = %{L}", "A = #{ return nil } &{ return true, nil }"} {
		f.Add([]byte(s), uint8(0))
		f.Add([]byte(s), uint8(63))
	}
	if dir := os.Getenv("VTOOL_CORPUS"); dir != "" {
		m, _ := filepath.Glob(filepath.Join(dir, "*.peg"))
		for i, p := range m {
			if b, err := os.ReadFile(p); err == nil && len(b) < 20000 {
				f.Add(b, uint8(i))
			}
		}
	}
	dir := tmpDir(f)
	f.Fuzz(func(t *testing.T, text []byte, bits uint8) {
		c := &c13Case{Text: text, Kind: "fuzz"}
		c.Flags.OptimizeGrammar = bits&1 != 0
		c.Flags.OptimizeParser = bits&2 != 0
		c.Flags.BasicLatin = bits&4 != 0
		c.Flags.LeftRec = bits&8 != 0
		c.Flags.Nolint = bits&16 != 0
		c.Flags.Cache = bits&32 != 0
		if bits&64 != 0 {
			c.Extra = []string{"-x"}
		}
		if maxParenDepth(text) > 10 {
			c.Flags.Cache = true // the documented remedy for deep nesting; with it the tool must be fast
		}
		if inlineBlowup(text, c.Flags) {
			t.Skip() // KF-C13-OPTBLOWUP: never in a process without a memory limit
		}
		kind, diff, _, _, timedOut, _, _ := checkC13(dir, c)
		if timedOut {
			t.Skip("inconclusive: time limit")
		}
		if kind != "" {
			t.Fatalf("%s: %s", kind, diff)
		}
	})
}
