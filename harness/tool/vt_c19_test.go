//go:build vtool

package main

import (
	"sync"
	"bytes"
	"context"
	"encoding/json"
	"fmt"
	"os"
	"os/exec"
	"path/filepath"
	"testing"
	"time"

	"pgregory.net/rapid"

	"verif/harness/gspec"
)

// C19: generation is deterministic.

type c19Case struct {
	Text  string   `json:"grammar_text"`
	Flags genFlags `json:"flags"`
	Kind  string   `json:"kind"`
}

const c19Repeats = 12

// historyGrammar is built between two builds of the case's grammar: state blocks, a recovery
// operator, a left-recursive rule - whatever a cache keyed too coarsely would mix up.
const historyGrammar = "{\npackage p\n}\nS = #{ return nil } E ( 'x' //{F} 'y' ) &{ return true, nil }\nE = E '+' [0-9] / [0-9] { return nil, nil }\n"

// checkC19 builds the same grammar text repeatedly in one process (Go randomises every
// map iteration) and compares bytes (or the diagnostic).
func checkC19(c *c19Case, repeats int) (kind, diff string, changedByOptimizer bool, out0 []byte) {
	var first []byte
	var firstErr string
	// the complete pipeline once (what the command writes); the repeats compare the builder
	// output, of which the formatted file is a deterministic function
	formatted, fstage, ferr := generate([]byte(c.Text), c.Flags)
	for i := 0; i < repeats; i++ {
		out, stage, err := generateOpt([]byte(c.Text), c.Flags, false)
		es := ""
		if err != nil {
			es = stage + ": " + err.Error()
			if stage == "panic" {
				es = "panic" // traces differ; C13 owns panics
			}
		}
		if i == 0 {
			first, firstErr = out, es
			continue
		}
		if es != firstErr {
			return "diagnostic_differs", fmt.Sprintf("run 1: %q, run %d: %q", truncT(firstErr, 200), i+1, truncT(es, 200)), false, first
		}
		if !bytes.Equal(out, first) {
			return "output_differs", fmt.Sprintf("run 1 and run %d of the same grammar and flags produce different bytes (%d vs %d bytes, first difference at %d)", i+1, len(first), len(out), firstDiffAt(first, out)), false, first
		}
	}
	// the output is a function of the grammar and the flags, not of what the process built
	// before: one build with other flags (and one of another grammar) in between, then again
	if firstErr == "" {
		other := c.Flags
		other.Nolint, other.OptimizeParser, other.BasicLatin = !other.Nolint, !other.OptimizeParser, !other.BasicLatin
		generateOpt([]byte(c.Text), other, false)
		generateOpt([]byte(historyGrammar), genFlags{OptimizeParser: c.Flags.OptimizeParser, Nolint: !c.Flags.Nolint, LeftRec: c.Flags.LeftRec}, false)
		out, _, err := generateOpt([]byte(c.Text), c.Flags, false)
		if err != nil || !bytes.Equal(out, first) {
			return "output_depends_on_history", fmt.Sprintf("after a build with other flags and a build of another grammar the same grammar and flags produce different bytes (%d vs %d bytes, first difference at %d, err %v)", len(first), len(out), firstDiffAt(first, out), err), false, first
		}
	}
	if ferr != nil && fstage != "format" && firstErr == "" {
		return "diagnostic_differs", fmt.Sprintf("the complete run failed (%s: %v) while the repeats succeeded", fstage, ferr), false, nil
	}
	if ferr != nil {
		return "", "", false, nil
	}
	return "", "", false, formatted
}

func firstDiffAt(a, b []byte) int {
	n := len(a)
	if len(b) < n {
		n = len(b)
	}
	for i := 0; i < n; i++ {
		if a[i] != b[i] {
			return i
		}
	}
	return n
}

func drawC19(rt *rapid.T) (*c19Case, *gspec.Grammar) {
	k := gspec.U(rt, 10, "c19kind")
	var g *gspec.Grammar
	c := &c19Case{}
	if gspec.U(rt, 40, "c19hub") == 0 {
		// one left-recursive component with thousands of cycles (the leader is the one rule on
		// every one of them)
		g = gspec.HubLRGen().Draw(rt, "hub")
		c.Kind = "hub"
		c.Flags.LeftRec = gspec.U(rt, 8, "leftrec") != 0
		c.Text = gspec.Print(g, gspec.PrintOpts{StubCode: true, Layout: gspec.U(rt, 3, "layout")})
		c.Flags.OptimizeParser = gspec.U(rt, 3, "optparser") == 0
		c.Flags.Nolint = gspec.U(rt, 3, "nolint") == 0
		return c, g
	}
	if gspec.U(rt, 25, "c19multiscc") == 0 {
		// several separate groups of mutually left-recursive rules behind one start rule
		g = gspec.MultiSCCGen().Draw(rt, "multiscc")
		c.Kind = "multiscc"
		c.Flags.LeftRec = gspec.U(rt, 8, "leftrec") != 0
		c.Text = gspec.Print(g, gspec.PrintOpts{StubCode: true, Layout: gspec.U(rt, 3, "layout")})
		c.Flags.OptimizeParser = gspec.U(rt, 3, "optparser") == 0
		c.Flags.OptimizeGrammar = gspec.U(rt, 4, "optgrammar") == 0
		c.Flags.Nolint = gspec.U(rt, 3, "nolint") == 0
		return c, g
	}
	switch {
	case k < 5:
		g = gspec.LRHuntGen().Draw(rt, "lrhunt")
		c.Kind = "lrhunt"
		c.Flags.LeftRec = gspec.U(rt, 5, "leftrec") != 0
	case k < 7:
		g = gspec.LRGrammarGen(false).Draw(rt, "leftrec")
		c.Kind = "leftrec"
		c.Flags.LeftRec = true
	default:
		prof := gspec.Pick(rt, []string{"optbait", "codeblocks", "throwrecover", "names", "stateful"}, "profile")
		g = gspec.GrammarGen(gspec.Profile(prof)).Draw(rt, "grammar")
		c.Kind = prof
	}
	// (several rules on one source line: nothing may depend on positions being distinct per line)
	c.Text = gspec.Print(g, gspec.PrintOpts{StubCode: true, Layout: gspec.U(rt, 3, "layout")})
	c.Flags.OptimizeGrammar = gspec.U(rt, 2, "optgrammar") == 0
	c.Flags.OptimizeParser = gspec.U(rt, 3, "optparser") == 0
	c.Flags.BasicLatin = gspec.U(rt, 3, "latin") == 0
	c.Flags.Nolint = gspec.U(rt, 3, "nolint") == 0
	if c.Flags.OptimizeGrammar && gspec.U(rt, 2, "alt") == 0 && len(g.Entries) > 1 {
		c.Flags.AltEntries = g.Entries[1:]
	}
	return c, g
}

// c19Known: the recorded finding needs left-recursion support and two rules of one cycle
// that are both nullable through each other (predicate over the grammar).
func c19Known(g *gspec.Grammar, c *c19Case) string {
	if !kfOpen("KF-C19-NULLABLE-ORDER") {
		return ""
	}
	null := gspec.NullableOver(g)
	graph := gspec.FirstOver(g)
	if _, cyc := gspec.HasCycle(graph); !cyc {
		return ""
	}
	for _, r := range g.Rules {
		if null[r.Name] {
			// a nullable rule on a first-cycle: the per-node flags depend on the visiting order
			for to := range graph[r.Name] {
				if graph[to][r.Name] || to == r.Name {
					return "KF-C19-NULLABLE-ORDER"
				}
			}
		}
	}
	return ""
}

func TestC19(t *testing.T) {
	sum := newSummary("C19")
	defer sum.write()
	dir := tmpDir(t)
	for _, f := range replayFiles() {
		b, err := os.ReadFile(f)
		if err != nil {
			continue
		}
		var rf struct {
			Case c19Case `json:"case"`
		}
		if json.Unmarshal(b, &rf) != nil {
			continue
		}
		sum.Replayed = append(sum.Replayed, f)
		if k, _, _, _ := checkC19(&rf.Case, 60); k != "" {
			sum.ReplayFails = append(sum.ReplayFails, f)
		}
	}
	if os.Getenv("VTOOL_REPLAY_ONLY") != "" {
		return
	}
	n := 0
	rapid.Check(t, func(rt *rapid.T) {
		c, g := drawC19(rt)
		if ex := c19Known(g, c); ex != "" {
			sum.Excluded[ex]++
			return
		}
		repeats := c19Repeats
		if c.Kind == "hub" {
			repeats = 5 // (a build takes up to three seconds)
		}
		kind, diff, _, out := checkC19(c, repeats)
		_, cyc := gspec.HasCycle(gspec.FirstOver(g))
		nontrivial := cyc || c.Flags.OptimizeGrammar
		tags := []string{c.Kind}
		if cyc {
			tags = append(tags, "first_cycle")
		}
		if out == nil {
			tags = append(tags, "refused")
		}
		sum.note(c.Text+fmt.Sprint(c.Flags), nontrivial, tags...)
		if nontrivial {
			sum.sample(map[string]any{"grammar": truncT(c.Text, 400), "flags": c.Flags.args(), "bytes": len(out)})
		}
		if kind == "" && out != nil {
			n++
			if n%25 == 0 {
				if d := cliRepeat(dir, c, out); d != "" {
					kind, diff = "cli_output_differs", d
				}
				sum.Tags["cli_cross_checked"]++
			}
			if kind == "" && n%25 == 12 {
				// main() itself, twice in this process: first with other flags (and every rule as
				// an alternate entrypoint), then with the flags of the case - whatever main() keeps
				// between calls must not show in the second output
				if d := mainTwice(dir, c, g, out); d != "" {
					kind, diff = "output_depends_on_history", d
				}
				sum.Tags["main_called_twice"]++
			}
		}
		if kind != "" {
			sum.fail(kind, diff, c)
			rt.Fatalf("%s: %s", kind, diff)
		}
	})
}

// mainTwice calls main() in this process with other flags and then with the flags of the case.
func mainTwice(dir string, c *c19Case, g *gspec.Grammar, want []byte) string {
	in := filepath.Join(dir, "g2.peg")
	os.WriteFile(in, []byte(c.Text), 0o644)
	other := c.Flags
	other.Nolint, other.OptimizeGrammar = !other.Nolint, true
	other.AltEntries = nil
	for _, r := range g.Rules {
		other.AltEntries = append(other.AltEntries, r.Name)
	}
	if r := runMain(dir, append(other.args(), in), nil, 60*time.Second); r.TimedOut {
		return "" // inconclusive
	}
	r := runMain(dir, append(c.Flags.args(), in), nil, 60*time.Second)
	if r.TimedOut {
		return ""
	}
	if r.Panic != "" || (r.Exited && r.Exit != 0) {
		return fmt.Sprintf("main() failed on its second call in the process (exit %d, panic %q, stderr %s) although the build succeeds", r.Exit, r.Panic, truncT(r.Stderr, 200))
	}
	if !bytes.Equal(r.Stdout, want) {
		return fmt.Sprintf("main() called after a call with other flags writes different bytes (%d vs %d, first difference at %d)", len(r.Stdout), len(want), firstDiffAt(r.Stdout, want))
	}
	return ""
}

// cliRepeat runs the command three times and compares with the in-process bytes.
func cliRepeat(dir string, c *c19Case, want []byte) string {
	bin := os.Getenv("VTOOL_PIGEON")
	if bin == "" {
		return ""
	}
	in := filepath.Join(dir, "g.peg")
	os.WriteFile(in, []byte(c.Text), 0o644)
	for i := 0; i < 3; i++ {
		ctx, cancel := context.WithTimeout(context.Background(), 60*time.Second)
		cmd := exec.CommandContext(ctx, bin, append(c.Flags.args(), in)...)
		var so, se bytes.Buffer
		cmd.Stdout, cmd.Stderr = &so, &se
		err := cmd.Run()
		cancel()
		if err != nil {
			return fmt.Sprintf("the command failed (%v: %s) although the in-process build succeeded", err, truncT(se.String(), 200))
		}
		if !bytes.Equal(so.Bytes(), want) {
			return fmt.Sprintf("run %d of the command differs from the in-process output (%d vs %d bytes)", i+1, so.Len(), len(want))
		}
	}
	// the same through -o, over a file that already exists and is longer than the output: the
	// generated file is a function of grammar and flags, not of what the file held before
	outFile := filepath.Join(dir, "out.go")
	os.WriteFile(outFile, bytes.Repeat([]byte("// stale\n"), len(want)/8+1000), 0o644)
	ctx, cancel := context.WithTimeout(context.Background(), 60*time.Second)
	cmd := exec.CommandContext(ctx, bin, append(append(c.Flags.args(), "-o", outFile), in)...)
	var se bytes.Buffer
	cmd.Stderr = &se
	err := cmd.Run()
	cancel()
	if err != nil {
		return fmt.Sprintf("the command with -o failed (%v: %s) although the in-process build succeeded", err, truncT(se.String(), 200))
	}
	if got, _ := os.ReadFile(outFile); !bytes.Equal(got, want) {
		return fmt.Sprintf("the file written with -o over an existing, longer file differs from the output (%d vs %d bytes)", len(got), len(want))
	}
	// several runs at the same time, each with an -o file of its own in one directory (as under
	// a parallel make): every file holds what a run alone writes
	var wg sync.WaitGroup
	res := make([]string, 4)
	for i := range res {
		wg.Add(1)
		go func(i int) {
			defer wg.Done()
			of := filepath.Join(dir, fmt.Sprintf("par%d.go", i))
			ctx, cancel := context.WithTimeout(context.Background(), 120*time.Second)
			defer cancel()
			cmd := exec.CommandContext(ctx, bin, append(append(c.Flags.args(), "-o", of), in)...)
			var se bytes.Buffer
			cmd.Stderr = &se
			if err := cmd.Run(); err != nil {
				if ctx.Err() == nil {
					res[i] = fmt.Sprintf("one of 4 runs at the same time failed (%v: %s)", err, truncT(se.String(), 200))
				}
				return
			}
			if got, _ := os.ReadFile(of); !bytes.Equal(got, want) {
				res[i] = fmt.Sprintf("one of 4 runs at the same time, each with its own -o file in one directory, wrote other bytes (%d vs %d)", len(got), len(want))
			}
		}(i)
	}
	wg.Wait()
	for _, r := range res {
		if r != "" {
			return r
		}
	}
	return ""
}
