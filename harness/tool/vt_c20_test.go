//go:build vtool

package main

import (
	"strings"
	"bytes"
	"encoding/json"
	"fmt"
	"os"
	"sort"
	"testing"

	"pgregory.net/rapid"

	"github.com/mna/pigeon/bootstrap"

	"verif/harness/gspec"
)

// C20 (part a): the hand-written bootstrap front-end and the generated front-end build
// structurally identical ASTs on the syntax subset the bootstrap parser understands.

type c20Case struct {
	Text string `json:"grammar_text"`
}

func checkC20a(text string) (kind, diff string) {
	bg, berr := bootstrap.NewParser().Parse("g.peg", bytes.NewReader([]byte(text)))
	pg, perr := parseToSpec([]byte(text))
	if berr != nil && perr != nil {
		return "", "" // outside the subset of both
	}
	if berr != nil {
		return "bootstrap_refused", fmt.Sprintf("the bootstrap front-end refused a grammar of its subset that the generated front-end accepts: %v", berr)
	}
	if perr != nil {
		return "frontend_refused", fmt.Sprintf("the generated front-end refused a grammar the bootstrap front-end accepts: %v", perr)
	}
	bs := toSpec(bg)
	db, dp := dump(bs, false), dump(pg, false)
	if db != dp {
		return "ast_differs", "bootstrap vs generated front-end: " + firstDiff(db, dp)
	}
	return "", ""
}

func TestC20a(t *testing.T) {
	sum := newSummary("C20a")
	defer sum.write()
	for _, f := range replayFiles() {
		b, err := os.ReadFile(f)
		if err != nil {
			continue
		}
		var rf struct {
			Engine string  `json:"engine"`
			Case   c20Case `json:"case"`
		}
		if json.Unmarshal(b, &rf) != nil || rf.Engine != "tool" {
			continue
		}
		sum.Replayed = append(sum.Replayed, f)
		if k, _ := checkC20a(rf.Case.Text); k != "" {
			sum.ReplayFails = append(sum.ReplayFails, f)
		}
	}
	if os.Getenv("VTOOL_REPLAY_ONLY") != "" {
		return
	}
	var words []string
	for w := range reservedWords {
		words = append(words, w)
	}
	sort.Strings(words)
	rapid.Check(t, func(rt *rapid.T) {
		if len(words) > 0 && gspec.U(rt, 8, "reservedword") == 0 {
			// the two front-ends keep separate tables of reserved words: every entry of the
			// generated front-end's table, as a label, as a rule name and as a reference
			w := gspec.Pick(rt, words, "word")
			text := gspec.Pick(rt, []string{"A = " + w + ":'a' B\nB = 'b'\n", w + " = 'a'\n", "A = 'a' " + w + "\n" + w + " = 'b'\n", "A = x:'a' " + w + ":B\nB = 'b'\n"}, "wordtext")
			kind, diff := checkC20a(text)
			sum.note(text, true, "reserved_word")
			if kind == "bootstrap_refused" {
				// outside the subset the bootstrap front-end understands (it refuses reserved
				// words in more places than the generated one): no claim
				kind = ""
				sum.Tags["reserved_word_outside_bootstrap_subset"]++
			}
			if kind != "" {
				sum.fail(kind, diff, &c20Case{Text: text})
				rt.Fatalf("%s: %s", kind, diff)
			}
			return
		}
		prof := gspec.Profile("bootsub")
		if gspec.U(rt, 3, "names") == 0 {
			prof.NameStyle = 1
		}
		g := gspec.GrammarGen(prof).Draw(rt, "grammar")
		normalizeForSpelling(g, false)
		g.Init = gspec.Pick(rt, []string{"{\npackage p\n}", "{ package p }", ""}, "init")
		sp := gspec.NewSpeller(rt)
		sp.Boot = true
		text := sp.Spell(g)
		if gspec.U(rt, 8, "duprule") == 0 && len(g.Rules) > 0 {
			// a rule name defined a second time (both front-ends keep every definition, in order)
			if !strings.HasSuffix(text, "\n") {
				text += "\n"
			}
			text += g.Rules[gspec.U(rt, len(g.Rules), "dupidx")].Name + " = \"dup\" [0-9]\n"
			sp.Features["rule_defined_twice"]++
		}
		kind, diff := checkC20a(text)
		var tags []string
		for f := range sp.Features {
			tags = append(tags, "spelling:"+f)
		}
		sum.note(text, len(g.Kinds()) >= 3, tags...)
		sum.sample(map[string]any{"grammar": truncT(text, 500), "kinds": g.Kinds()})
		if kind != "" {
			sum.fail(kind, diff, &c20Case{Text: text})
			rt.Fatalf("%s: %s", kind, diff)
		}
	})
}
