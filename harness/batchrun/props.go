package batchrun

import (
	"fmt"
	"os"
	"path/filepath"
	"strings"
	"unicode/utf8"

	"pgregory.net/rapid"

	"verif/harness/gspec"
	"verif/harness/refpeg"
	"verif/harness/vrt"
)

func init() {
	register(&Prop{ID: "C02", Draw: drawC02, Check: checkC02})
	register(&Prop{ID: "C05", Draw: drawC05, Check: checkC05})
	register(&Prop{ID: "C11", Draw: drawC11, Check: checkC11})
	register(&Prop{ID: "C12", Draw: drawC12, Check: checkC12})
	register(&Prop{ID: "C17", Draw: drawC17, Check: checkC17})
	register(&Prop{ID: "C14", Draw: drawC14, Check: checkC14})
	register(&Prop{ID: "C04", Draw: drawC02, Check: checkC04})
}

// lrOnce reports whether the grammar is free of left recursion or the reference
// evaluation invoked every left-recursive rule at most once per offset (otherwise the
// leader's memo entry legitimately replays value and end without re-running blocks, and
// traces/errors/state are only comparable between real parsers).
func lrOnce(ref *refpeg.Result) bool {
	for _, n := range ref.Stats.LRCalls {
		if n > 1 {
			return false
		}
	}
	return true
}

// codeIDs lists the code block ids of a grammar by kind.
func codeIDs(g *gspec.Grammar) (all []int) {
	for _, r := range g.Rules {
		gspec.Walk(r.Expr, func(e *gspec.Expr) {
			if e.IsCode() {
				all = append(all, e.ID)
			}
		})
	}
	return
}

func drawPlan(t *rapid.T, g *gspec.Grammar, nFaults int, pure bool, panics bool) *vrt.Plan {
	p := &vrt.Plan{}
	p.Pred = rapid.SliceOfN(rapid.Bool(), 8, 8).Draw(t, "predbits")
	// bias towards true so that predicates do not kill most parses
	for i := range p.Pred {
		if !p.Pred[i] && gspec.U(t, 2, "predflip") == 0 {
			p.Pred[i] = true
		}
	}
	ids := codeIDs(g)
	if nFaults > 0 && len(ids) > 0 {
		n := gspec.U(t, nFaults+1, "nfaults")
		msgs := []string{"e1", "e2", "boom", "e1"}
		for i := 0; i < n; i++ {
			f := vrt.Fault{ID: gspec.Pick(t, ids, "faultid"), Kind: "err", Msg: gspec.Pick(t, msgs, "faultmsg")}
			if !pure {
				f.Nth = gspec.U(t, 4, "faultnth")
			}
			if panics && gspec.U(t, 4, "faultpanic") == 0 {
				f.Kind = gspec.Pick(t, []string{"panic_err", "panic_str", "panic_int", "panic_join"}, "panickind")
			} else if gspec.U(t, 6, "faultjoin") == 0 {
				// an error that holds other errors (errors.Join, several %w): recorded as it is
				f.Kind = "err_join"
			}
			p.Faults = append(p.Faults, f)
		}
	}
	return p
}

// longInput turns one case in 150 into a long one: the grammar's Loop entry (it works its
// way through any input, trying the other entries at every offset) over 300 to 9000 bytes
// made of samples of the other entries, joined by newlines (hundreds of lines) or by nothing
// (lines of thousands of columns). Sizes cross 256, 1024, 4096 and 8192.
func longInput(t *rapid.T, x *X, c *Case) {
	g := x.G.Spec
	if g.Rule("Loop") == nil || g.Profile == "leftrec" || gspec.U(t, 150, "longinput") != 0 {
		return
	}
	listed := false
	for _, e := range g.Entries {
		listed = listed || e == "Loop"
	}
	if !listed {
		return // (C09 protects a subset of the entries only: the others may be optimized away)
	}
	target := gspec.Pick(t, []int{300, 1100, 4200, 9000}, "longlen")
	if g.HasState && target > 1100 {
		// (a state store that grows with the input is cloned at every choice and sequence: the
		// work is quadratic in the length, in the reference as in the parser)
		target = 600
	}
	sep := gspec.Pick(t, []string{"\n", "", " "}, "longsep")
	var in []byte
	for i := 0; len(in) < target && i < 4000; i++ {
		piece := gspec.SampleInput(t, g, gspec.Pick(t, g.Entries, "longentry"), alphabetFor(g), 48)
		if len(piece) > 64 {
			continue // (no big rules here: they have their own sizes)
		}
		in = append(in, piece...)
		in = append(in, sep...)
	}
	c.Input = in
	c.Entry = "Loop"
}

func drawBase(t *rapid.T, x *X, maxLen int) *Case {
	g := x.G.Spec
	c := &Case{Entry: drawEntry(t, g, false)}
	c.Input = gspec.SampleInput(t, g, entryRuleName(g, c.Entry), alphabetFor(g), maxLen)
	longInput(t, x, c)
	if gspec.U(t, 3, "fname") == 0 {
		c.Opts.Filename = gspec.Pick(t, []string{"f.txt", "dir/a b.peg", "100%d/%s.txt", "f.txt"}, "filename")
	}
	// an option value is immutable: a tenth of the cases pass every option value twice
	c.Opts.DupOpts = gspec.U(t, 10, "dupopts") == 0
	// a call is one-shot: what an earlier call left behind (a call cut short by its budget, in
	// particular) and what a later call does must not show in this one
	if gspec.U(t, 25, "poisonbefore") == 0 {
		c.Opts.PoisonBefore = uint64(3 + gspec.U(t, 40, "poisonbudget"))
	}
	c.Opts.CallAfter = gspec.U(t, 12, "callafter") == 0
	// options are independent setters: a third of the cases give them in another order
	if gspec.U(t, 3, "optorder") == 0 {
		c.Opts.OptOrder = 1 + gspec.U(t, 12, "optorderk")
	}
	// the three entry points are one parser: a fifth of the cases go through ParseReader or
	// ParseFile (the file is written by the adapter; its name is the filename of the case)
	switch gspec.U(t, 10, "entrypoint") {
	case 0:
		c.Opts.Via = "reader"
	case 1:
		c.Opts.Via = "file"
		c.Opts.Filename = filepath.Join(os.TempDir(), fmt.Sprintf("vrt-parsefile-%d.txt", os.Getpid()))
	}
	return c
}

// ---------------------------------------------------------------------------------
// C02: code blocks see the true context

func drawC02(t *rapid.T, x *X) *Case {
	c := drawBase(t, x, 48)
	// bias to newlines and multi-byte runes before the interesting offset
	if gspec.U(t, 3, "nlprefix") == 0 && len(c.Input) > 0 {
		// substitute an early rune by a newline / multi-byte rune when the grammar allows any
		rs := []rune(string(c.Input))
		i := gspec.U(t, len(rs), "nlpos")
		rs[i] = gspec.Pick(t, []rune{'\n', 'é', '日', '😀'}, "nlrune")
		c.Input = []byte(string(rs))
	}
	// a few error-returning blocks: a code predicate's boolean alone decides the match
	c.Plan = drawPlan(t, x.G.Spec, 2, false, false)
	// pos is a function of the input and the offset for every byte string: an eighth of the
	// inputs carry invalid UTF-8 (a byte that is not a rune still is one column)
	if gspec.U(t, 8, "invalidutf8") == 0 {
		c.Input = gspec.InvalidUTF8Edit(t, c.Input)
		c.Opts.AllowInvalid = gspec.U(t, 4, "allowinvalid") != 0
	}
	return c
}

// compareEvents compares the code-block traces field by field. what selects the fields:
// "ctx" = kind, id, text, pos, labels, predicate answer; "state" = state and globalStore
// snapshots. It returns a description of the first difference and the number of
// predicate/state events that showed the stale context of finding KF-C02-STALECTX.
func compareEvents(x *X, ref *refpeg.Result, got []vrt.Event, what string, strict bool) (string, int) {
	stale := 0
	n := len(ref.Events)
	if len(got) < n {
		n = len(got)
	}
	for i := 0; i < n; i++ {
		w, g := ref.Events[i], got[i]
		if w.Kind != g.Kind || w.ID != g.ID {
			return fmt.Sprintf("event %d: want %s#%d, got %s#%d", i, w.Kind, w.ID, g.Kind, g.ID), stale
		}
		if what == "ctx" {
			if w.Labels != g.Labels {
				return fmt.Sprintf("event %d (%s#%d): labels want {%s} got {%s}", i, w.Kind, w.ID, w.Labels, g.Labels), stale
			}
			if w.Ret != g.Ret {
				return fmt.Sprintf("event %d (%s#%d): predicate answer want %s got %s", i, w.Kind, w.ID, w.Ret, g.Ret), stale
			}
			same := w.Text == g.Text && w.Line == g.Line && w.Col == g.Col && w.Off == g.Off
			if !same {
				st := ref.Stale[i]
				isStale := w.Kind != "act" && g.Text == st.Text && g.Line == st.Line && g.Col == st.Col && g.Off == st.Off
				if isStale && !strict && x.KF["KF-C02-STALECTX"] {
					stale++
				} else {
					return fmt.Sprintf("event %d (%s#%d): want text=%q pos=%d:%d(%d), got text=%q pos=%d:%d(%d)", i, w.Kind, w.ID,
						w.Text, w.Line, w.Col, w.Off, g.Text, g.Line, g.Col, g.Off), stale
				}
			}
		}
		if what == "state" {
			if w.State != g.State {
				return fmt.Sprintf("event %d (%s#%d at %d): state want {%s} got {%s}", i, w.Kind, w.ID, w.Off, w.State, g.State), stale
			}
			if w.Global != g.Global {
				return fmt.Sprintf("event %d (%s#%d at %d): globalStore want {%s} got {%s}", i, w.Kind, w.ID, w.Off, w.Global, g.Global), stale
			}
		}
	}
	if len(ref.Events) != len(got) {
		extra := ""
		if len(got) > n {
			extra = got[n].String()
		} else {
			extra = ref.Events[n].String()
		}
		return fmt.Sprintf("trace length: want %d events, got %d (first extra/missing: %s)", len(ref.Events), len(got), extra), stale
	}
	return "", stale
}

func traceText(ev []vrt.Event) string {
	var b strings.Builder
	for i, e := range ev {
		if i >= 12 {
			fmt.Fprintf(&b, "… (%d events)", len(ev))
			break
		}
		b.WriteString(e.String() + "\n")
	}
	return b.String()
}

func checkC02(x *X, c *Case, strict bool) *Outcome {
	g := x.G.Spec
	ref := refpeg.Eval(g, c.Input, refOpts(c))
	if ref.OverBudget {
		return &Outcome{Discard: true}
	}
	if ex := knownExclusion(x, ref, strict); ex != "" {
		return &Outcome{Excluded: ex}
	}
	o := &Outcome{Tags: commonTags(c, ref)}
	later := false
	for _, e := range ref.Events {
		if e.Off > 0 {
			later = true
		}
	}
	o.Nontrivial = len(ref.Events) >= 2 && later
	if ref.Stats.EventsAfterNL > 0 && ref.Stats.Backtracks > 0 {
		o.Tags = append(o.Tags, "hard_event_after_backtrack_over_nl_or_multibyte")
	}
	if ref.Stats.CodePredEvals > 0 {
		o.Tags = append(o.Tags, "code_predicate")
	}
	want := vrt.Canon(ref.Value)
	for _, pk := range livePkgs(x.G) {
		resp, ctx := runReal(x, pk, c, safetyBudget(ref))
		o.Evals++
		if d, stale := compareEvents(x, ref, ctx.Events, "ctx", strict); d != "" {
			o.Viol = viol(pk, c, "event_context", d, traceText(ref.Events), traceText(ctx.Events))
			return o
		} else if stale > 0 {
			o.Tolerated = append(o.Tolerated, "KF-C02-STALECTX")
		}
		if d := compareOutcome(ref, resp, want, false); d != "" {
			o.Viol = viol(pk, c, "match_value", d, describeRef(ref), describeResp(resp))
			return o
		}
		// "however much ... memoised skipping preceded": with Memoize(true) blocks may be skipped,
		// but every action that does run must see a context that the plain parse also produced
		if !pk.Optimized && len(ref.Events) > 0 && memoFinding(x, ref, strict) == "" && ref.Stats.ZeroWidthIters == 0 {
			mc := *c
			mc.Opts.Memoize = true
			_, mctx := runReal(x, pk, &mc, safetyBudget(ref))
			o.Evals++
			key := func(e vrt.Event) string {
				return fmt.Sprintf("%d|%q|%d:%d(%d)|%s", e.ID, e.Text, e.Line, e.Col, e.Off, e.Labels)
			}
			plain := map[string]int{}
			for _, e := range ref.Events {
				if e.Kind == "act" {
					plain[key(e)]++
				}
			}
			for _, e := range mctx.Events {
				if e.Kind != "act" {
					continue
				}
				if plain[key(e)] == 0 {
					o.Viol = viol(pk, &mc, "event_context_memoize", fmt.Sprintf("Memoize(true): action ran with a context the plain parse never produces: %s", e.String()), traceText(ref.Events), traceText(mctx.Events))
					return o
				}
				plain[key(e)]--
			}
			if ref.Stats.MemoSensitive {
				o.Tags = append(o.Tags, "memo_run_compared")
			}
		}
	}
	o.Observe = fmt.Sprintf("ok=%v events=%d first=%s", ref.Ok, len(ref.Events), firstEvent(ref.Events))
	return o
}

func firstEvent(ev []vrt.Event) string {
	if len(ev) == 0 {
		return "-"
	}
	return ev[len(ev)/2].String()
}

// ---------------------------------------------------------------------------------
// C05: state rollback

func drawC05(t *rapid.T, x *X) *Case {
	c := drawBase(t, x, 40)
	// (a third of the cases: up to two blocks report an error - the match goes on, and whatever
	// the failing block did to the store is undone like after any other action or predicate)
	nf := 0
	if gspec.U(t, 3, "withfaults") == 0 {
		nf = 2
	}
	c.Plan = drawPlan(t, x.G.Spec, nf, x.G.Spec.Profile == "leftrec", false)
	c.Plan.TryStateWrites = rapid.Bool().Draw(t, "trywrites")
	if nf > 0 {
		c.Plan.TryStateWrites = true
	}
	if rapid.Bool().Draw(t, "initstate") {
		c.Opts.InitInts = map[string]int{"k1": gspec.U(t, 6, "initk1")}
		if rapid.Bool().Draw(t, "initlist") {
			c.Opts.HasInitList = true
			c.Opts.InitList = []int{7}
		}
	}
	if gspec.U(t, 4, "initglobal") == 0 {
		c.Opts.Globals = map[string]int{"g": 10}
	}
	return c
}

func checkC05(x *X, c *Case, strict bool) *Outcome {
	g := x.G.Spec
	ref := refpeg.Eval(g, c.Input, refOpts(c))
	if ref.OverBudget {
		return &Outcome{Discard: true}
	}
	if ex := knownExclusion(x, ref, strict); ex != "" {
		return &Outcome{Excluded: ex}
	}
	o := &Outcome{Tags: commonTags(c, ref)}
	o.Nontrivial = ref.Stats.Rollbacks >= 1 && len(ref.Events) >= 2
	for k, v := range ref.Stats.RollbackKinds {
		if v > 0 {
			o.Tags = append(o.Tags, "rollback_in_"+k)
		}
	}
	if c.Plan != nil && c.Plan.TryStateWrites {
		o.Tags = append(o.Tags, "action_state_writes")
	}
	want := vrt.Canon(ref.Value)
	for _, pk := range livePkgs(x.G) {
		if len(c.Opts.InitInts) > 0 && !pk.HasInitState {
			continue
		}
		resp, ctx := runReal(x, pk, c, safetyBudget(ref))
		o.Evals++
		if !lrOnce(ref) {
			o.Tags = append(o.Tags, "lr_reinvoked_outcome_only")
		} else if d, _ := compareEvents(x, ref, ctx.Events, "state", strict); d != "" {
			o.Viol = viol(pk, c, "state_snapshot", d, traceText(ref.Events), traceText(ctx.Events))
			return o
		}
		if d := compareOutcome(ref, resp, want, true); d != "" {
			o.Viol = viol(pk, c, "match_value", d, describeRef(ref), describeResp(resp))
			return o
		}
	}
	o.Observe = fmt.Sprintf("ok=%v events=%d rollbacks=%d final{%s} global{%s}", ref.Ok, len(ref.Events), ref.Stats.Rollbacks, ref.FinalState, ref.FinalGlobal)
	return o
}

// ---------------------------------------------------------------------------------
// C11: error contract

func drawC11(t *rapid.T, x *X) *Case {
	c := drawBase(t, x, 40)
	// in left-recursive grammars the n-th invocation of a block is not a stable notion (the
	// seed-growing loop re-evaluates alternatives): faults fire on every invocation there
	nf := 4
	if x.G.Spec.Profile == "leftrec" {
		nf = 6
	}
	c.Plan = drawPlan(t, x.G.Spec, nf, x.G.Spec.Profile == "leftrec", true)
	c.Opts.NoRecover = gspec.U(t, 4, "norecover") == 0
	return c
}

// compareErrors checks the error contract: list type, element type, Inner identity for
// injected errors, exact messages in order of first occurrence.
func compareErrors(ref *refpeg.Result, resp *vrt.Response, ctx *vrt.Ctx) string {
	if len(ref.Errs) == 0 {
		if resp.HasErr {
			return fmt.Sprintf("want no error, got %q", trunc(resp.ErrText, 300))
		}
		return ""
	}
	if !resp.HasErr {
		return fmt.Sprintf("want %d errors (%q), got nil error", len(ref.Errs), trunc(ref.ErrText, 300))
	}
	if !resp.IsErrList {
		return "returned error is not an errList"
	}
	if len(resp.Errs) != len(ref.Errs) {
		return fmt.Sprintf("want %d errors %q, got %d errors %q", len(ref.Errs), trunc(ref.ErrText, 400), len(resp.Errs), trunc(resp.ErrText, 400))
	}
	for i, w := range ref.Errs {
		g := resp.Errs[i]
		if !g.IsParserError {
			return fmt.Sprintf("error %d is not a *parserError", i)
		}
		if g.Msg != w.Msg && g.Msg != w.AltMsg {
			return fmt.Sprintf("error %d: want %q, got %q", i, w.Msg, g.Msg)
		}
		if w.Injected {
			ie, ok := vrt.InjectedOf(g.Inner)
			if !ok {
				return fmt.Sprintf("error %d: Inner is %T, want the injected error value", i, g.Inner)
			}
			found := false
			for _, inj := range ctx.Injected {
				if inj == ie {
					found = true
				}
			}
			if !found {
				return fmt.Sprintf("error %d: Inner is not the identical injected value", i)
			}
		} else if g.Inner == nil || g.Inner.Error() != w.InnerMsg {
			return fmt.Sprintf("error %d: Inner = %v, want %q", i, g.Inner, w.InnerMsg)
		}
	}
	return ""
}

// lrErrLost recognises the recorded finding KF-C17-LRERRLOST (same root as
// KF-C06-LRMEMOERR, without the Memoize option): the result of a left-recursive leader is
// always memoized; when a leader is first evaluated inside a growth attempt that an outer
// leader then discards, the errors raised meanwhile are dropped with the attempt but the
// memoized result stays, so the later, kept use of that result raises nothing. Covered:
// the returned list is the reference list minus messages that, in the reference evaluation,
// some invocation of a left-recursive rule dropped.
func lrErrLost(ref *refpeg.Result, resp *vrt.Response) bool {
	if len(ref.Stats.LRDroppedErrs) == 0 || len(resp.Errs) >= len(ref.Errs) {
		return false
	}
	j := 0
	for _, w := range ref.Errs {
		if j < len(resp.Errs) && (resp.Errs[j].Msg == w.Msg || resp.Errs[j].Msg == w.AltMsg) {
			j++
			continue
		}
		if ref.Stats.LRDroppedErrs[w.Msg] == 0 {
			return false
		}
	}
	return j == len(resp.Errs)
}

// compareErrorSets compares the returned messages with the reference's as sets.
func compareErrorSets(ref *refpeg.Result, resp *vrt.Response) string {
	want := map[string]bool{}
	for _, w := range ref.Errs {
		want[w.Msg] = true
	}
	got := map[string]bool{}
	for _, g := range resp.Errs {
		got[g.Msg] = true
	}
	for _, w := range ref.Errs {
		if !got[w.Msg] && !got[w.AltMsg] {
			return fmt.Sprintf("error %q is missing from the returned list %q", w.Msg, trunc(resp.ErrText, 300))
		}
	}
	alt := map[string]bool{}
	for _, w := range ref.Errs {
		alt[w.AltMsg] = true
	}
	for _, g := range resp.Errs {
		if !want[g.Msg] && !alt[g.Msg] {
			return fmt.Sprintf("returned error %q is not among the expected %q", g.Msg, trunc(ref.ErrText, 300))
		}
	}
	return ""
}

func checkC11(x *X, c *Case, strict bool) *Outcome {
	g := x.G.Spec
	ref := refpeg.Eval(g, c.Input, refOpts(c))
	if ref.OverBudget {
		return &Outcome{Discard: true}
	}
	if ex := knownExclusion(x, ref, strict); ex != "" {
		return &Outcome{Excluded: ex}
	}
	o := &Outcome{Tags: commonTags(c, ref)}
	o.Nontrivial = ref.Stats.FaultsFired >= 1
	if ref.Panicked {
		o.Tags = append(o.Tags, "panic_escapes")
	}
	for _, e := range ref.Errs {
		o.Tags = append(o.Tags, "err_"+e.Kind)
	}
	if ref.Ok && len(ref.Errs) > 0 {
		o.Tags = append(o.Tags, "value_with_errors")
	}
	nomatch := len(ref.Errs) == 1 && ref.Errs[0].Kind == "nomatch"
	want := vrt.Canon(ref.Value)
	for _, pk := range livePkgs(x.G) {
		resp, ctx := runReal(x, pk, c, safetyBudget(ref))
		o.Evals++
		if ref.Panicked {
			if !resp.Panicked {
				o.Viol = viol(pk, c, "panic_propagation", "Recover(false): the panic did not reach the caller", describeRef(ref), describeResp(resp))
				return o
			}
			if !samePanic(ref.PanicVal, resp.PanicVal, ctx) {
				o.Viol = viol(pk, c, "panic_propagation", fmt.Sprintf("Recover(false): panic value want %v got %v", ref.PanicVal, resp.PanicVal), describeRef(ref), describeResp(resp))
				return o
			}
			continue
		}
		if resp.Panicked {
			o.Viol = viol(pk, c, "panic_containment", fmt.Sprintf("a panic escaped Parse: %v", resp.PanicVal), describeRef(ref), describeResp(resp))
			return o
		}
		if nomatch {
			// the synthesized no-match message is C12's subject; here only its shape
			if !resp.HasErr || !resp.IsErrList || len(resp.Errs) != 1 || !resp.Errs[0].IsParserError || resp.Value != nil {
				o.Viol = viol(pk, c, "error_shape", "failed parse must return nil and a one-element errList of *parserError", describeRef(ref), describeResp(resp))
				return o
			}
			continue
		}
		if !lrOnce(ref) {
			// the order in which re-invoked left-recursive rules report is not fixed by the
			// denotation; which messages are reported is
			o.Tags = append(o.Tags, "lr_reinvoked_error_set_only")
			if d := compareErrorSets(ref, resp); d != "" {
				o.Viol = viol(pk, c, "error_set", d, describeRef(ref), describeResp(resp))
				return o
			}
		} else if d := compareErrors(ref, resp, ctx); d != "" {
			o.Viol = viol(pk, c, "error_list", d, describeRef(ref), describeResp(resp))
			return o
		}
		if d := compareOutcome(ref, resp, want, false); d != "" {
			o.Viol = viol(pk, c, "match_value", d, describeRef(ref), describeResp(resp))
			return o
		}
	}
	o.Observe = fmt.Sprintf("ok=%v errs=%q panicked=%v", ref.Ok, trunc(ref.ErrText, 200), ref.Panicked)
	return o
}

func samePanic(want, got any, ctx *vrt.Ctx) bool {
	switch w := want.(type) {
	case *vrt.InjectedError:
		g, ok := vrt.InjectedOf(got)
		if !ok || g.Msg != w.Msg {
			return false
		}
		for _, inj := range ctx.Injected {
			if inj == g {
				return true
			}
		}
		return false
	case string:
		g, ok := got.(string)
		if ok {
			return g == w
		}
		// errMaxExprCnt is an error value
		if e, ok := got.(error); ok {
			return e.Error() == w
		}
	case int:
		g, ok := got.(int)
		return ok && g == w
	}
	return false
}

// ---------------------------------------------------------------------------------
// C12: farthest failure

func drawC12(t *rapid.T, x *X) *Case {
	return drawBase(t, x, 48)
}

func checkC12(x *X, c *Case, strict bool) *Outcome {
	g := x.G.Spec
	ref := refpeg.Eval(g, c.Input, refOpts(c))
	if ref.OverBudget {
		return &Outcome{Discard: true}
	}
	if ex := knownExclusion(x, ref, strict); ex != "" {
		return &Outcome{Excluded: ex}
	}
	o := &Outcome{Tags: commonTags(c, ref)}
	failed := !ref.Ok && len(ref.Errs) == 1 && ref.Errs[0].Kind == "nomatch"
	inverted := false
	for _, w := range ref.FailWants {
		if strings.HasPrefix(w, "!") || w == "EOF" {
			inverted = true
		}
	}
	o.Nontrivial = failed && (ref.FailOff > 0 || len(ref.FailWants) >= 2 || inverted)
	if inverted {
		o.Tags = append(o.Tags, "inverted_expectation")
	}
	if failed && len(ref.FailWants) == 0 {
		o.Tags = append(o.Tags, "empty_expected_set")
	}
	want := vrt.Canon(ref.Value)
	for _, pk := range livePkgs(x.G) {
		resp, _ := runReal(x, pk, c, safetyBudget(ref))
		o.Evals++
		if d := compareOutcome(ref, resp, want, true); d != "" {
			o.Viol = viol(pk, c, "match_value", d, describeRef(ref), describeResp(resp))
			return o
		}
		if !failed {
			continue
		}
		if len(resp.Errs) != 1 {
			o.Viol = viol(pk, c, "single_error", fmt.Sprintf("want exactly one error, got %d: %q", len(resp.Errs), trunc(resp.ErrText, 300)), ref.ErrText, resp.ErrText)
			return o
		}
		if resp.Errs[0].Msg != ref.Errs[0].Msg {
			// recorded finding: a failure at offset 0 of an input that starts with a newline is
			// reported at 1:1 although offset 0 is at 2:0
			if !strict && x.KF["KF-C12-NLSTART"] && ref.FailOff == 0 && len(c.Input) > 0 && c.Input[0] == '\n' &&
				resp.Errs[0].Msg == strings.Replace(ref.Errs[0].Msg, "2:0 (0)", "1:1 (0)", 1) {
				o.Tolerated = append(o.Tolerated, "KF-C12-NLSTART")
				continue
			}
			// recorded finding: the result of a left-recursive rule stays memoized per offset; invoked
			// again at that offset inside another parity of ! nesting, the terminals it tries there
			// are not recorded again (a subset of the expected set is reported; the position may
			// fall back to an earlier failure)
			if !strict && x.KF["KF-C12-LRMEMO"] && ref.Stats.LRInvertSwitch > 0 {
				o.Tolerated = append(o.Tolerated, "KF-C12-LRMEMO")
				continue
			}
			o.Viol = viol(pk, c, "farthest_failure", fmt.Sprintf("want %q, got %q", ref.Errs[0].Msg, resp.Errs[0].Msg), ref.ErrText, resp.ErrText)
			return o
		}
	}
	o.Observe = fmt.Sprintf("ok=%v err=%q", ref.Ok, trunc(ref.ErrText, 200))
	return o
}

// ---------------------------------------------------------------------------------
// C17: invalid UTF-8

func drawC17(t *rapid.T, x *X) *Case {
	c := drawBase(t, x, 40)
	if gspec.U(t, 10, "keepvalid") > 0 {
		c.Input = gspec.InvalidUTF8Edit(t, c.Input)
	}
	c.Opts.AllowInvalid = rapid.Bool().Draw(t, "allowinvalid")
	c.Plan = drawPlan(t, x.G.Spec, 0, false, false)
	if gspec.U(t, 60, "manyinvalid") == 0 && x.G.Spec.Rule("Loop") != nil {
		// a long input with well over a hundred invalid bytes (one error per invalid offset
		// advanced onto, however many there are)
		var in []byte
		pieces := [][]byte{{0xff}, {0xc0, 0x80}, {0xed, 0xa0, 0x80}, {0xe2, 0x82}, {0x80}, []byte("a"), []byte("é"), []byte("\n")}
		for len(in) < 400 {
			in = append(in, gspec.Pick(t, pieces, "invalidpiece")...)
		}
		c.Input = in
		c.Entry = "Loop"
	}
	return c
}

func checkC17(x *X, c *Case, strict bool) *Outcome {
	g := x.G.Spec
	ref := refpeg.Eval(g, c.Input, refOpts(c))
	if ref.OverBudget {
		return &Outcome{Discard: true}
	}
	if ex := knownExclusion(x, ref, strict); ex != "" {
		return &Outcome{Excluded: ex}
	}
	o := &Outcome{Tags: commonTags(c, ref)}
	o.Nontrivial = len(ref.Stats.AdvancedInvalid) >= 1
	if !utf8.Valid(c.Input) {
		o.Tags = append(o.Tags, "invalid_input")
	}
	if c.Opts.AllowInvalid {
		o.Tags = append(o.Tags, "allow_invalid")
	}
	if len(ref.Stats.AdvancedInvalid) > 0 && ref.Ok {
		o.Tags = append(o.Tags, "matched_over_invalid_bytes")
	}
	nomatch := len(ref.Errs) == 1 && ref.Errs[0].Kind == "nomatch"
	want := vrt.Canon(ref.Value)
	for _, pk := range livePkgs(x.G) {
		resp, ctx := runReal(x, pk, c, safetyBudget(ref))
		o.Evals++
		if d := compareOutcome(ref, resp, want, false); d != "" {
			o.Viol = viol(pk, c, "match_value", d, describeRef(ref), describeResp(resp))
			return o
		}
		if !nomatch {
			if d := compareErrors(ref, resp, ctx); d != "" {
				if !strict && x.KF["KF-C17-LRERRLOST"] && lrErrLost(ref, resp) {
					return &Outcome{Excluded: "KF-C17-LRERRLOST"}
				}
				o.Viol = viol(pk, c, "encoding_errors", d, describeRef(ref), describeResp(resp))
				return o
			}
		}
		if !lrOnce(ref) {
			// a left-recursive rule invoked again at an offset re-runs code blocks in an order the
			// denotation does not fix: outcome and errors only
			o.Tags = append(o.Tags, "lr_reinvoked_outcome_only")
			continue
		}
		// text seen by actions = original bytes; offsets count bytes (action events only)
		for i, e := range ref.Events {
			if i < len(ctx.Events) && e.Kind == "act" {
				g := ctx.Events[i]
				if g.Kind != "act" || g.ID != e.ID || g.Text != e.Text || g.Off != e.Off || g.Line != e.Line || g.Col != e.Col {
					o.Viol = viol(pk, c, "event_context", fmt.Sprintf("event %d: want %s, got %s", i, e.String(), g.String()), traceText(ref.Events), traceText(ctx.Events))
					return o
				}
			}
		}
		if len(ref.Events) != len(ctx.Events) {
			o.Viol = viol(pk, c, "event_context", fmt.Sprintf("trace length want %d got %d", len(ref.Events), len(ctx.Events)), traceText(ref.Events), traceText(ctx.Events))
			return o
		}
	}
	o.Observe = fmt.Sprintf("ok=%v advanced_onto_invalid=%v errs=%q", ref.Ok, ref.Stats.AdvancedInvalid, trunc(ref.ErrText, 200))
	return o
}

// ---------------------------------------------------------------------------------
// C14: throw / recover

// drawC14 draws like C02; for left-recursive grammars the plan has no faults ("the n-th
// invocation of a block" is not stable under seed growing, and which errors survive a growth
// attempt is C08's subject, not C14's).
func drawC14(t *rapid.T, x *X) *Case {
	c := drawC02(t, x)
	if x.G.Spec.Profile == "leftrec" && c.Plan != nil {
		c.Plan.Faults = nil
	}
	return c
}

func checkC14(x *X, c *Case, strict bool) *Outcome {
	g := x.G.Spec
	ref := refpeg.Eval(g, c.Input, refOpts(c))
	if ref.OverBudget {
		return &Outcome{Discard: true}
	}
	if ex := knownExclusion(x, ref, strict); ex != "" {
		return &Outcome{Excluded: ex}
	}
	if ref.Stats.LRHandlerSwitch > 0 && !strict && x.KF["KF-C14-LRMEMO"] {
		// recorded finding: the result of a left-recursive rule stays memoized per offset; invoked
		// again under other recovery operators, its throws are not evaluated again
		return &Outcome{Excluded: "KF-C14-LRMEMO"}
	}
	o := &Outcome{Tags: commonTags(c, ref)}
	if len(ref.Stats.LRCalls) > 0 {
		o.Tags = append(o.Tags, "left_recursive_rule_invoked")
	}
	o.Nontrivial = ref.Stats.ThrowsHandled >= 1 || ref.Stats.ThrowFallthrough >= 1
	if ref.Stats.Throws > 0 {
		o.Tags = append(o.Tags, "throw")
	}
	if ref.Stats.ThrowsHandled > 0 {
		o.Tags = append(o.Tags, "throw_handled")
	}
	if ref.Stats.ThrowFallthrough > 0 {
		o.Tags = append(o.Tags, "handler_failed_outer_tried")
	}
	if ref.Stats.ThrowNoHandler > 0 {
		o.Tags = append(o.Tags, "throw_without_handler_in_force")
	}
	want := vrt.Canon(ref.Value)
	for _, pk := range livePkgs(x.G) {
		resp, ctx := runReal(x, pk, c, safetyBudget(ref))
		o.Evals++
		if d := compareOutcome(ref, resp, want, g.Profile != "leftrec" || len(c.Plan.Faults) == 0); d != "" {
			o.Viol = viol(pk, c, "match_value", d, describeRef(ref), describeResp(resp))
			return o
		}
		if !lrOnce(ref) {
			// (a left-recursive rule invoked again at an offset replays its result without running
			// its blocks again: the trace is not comparable, success, prefix and value are)
			continue
		}
		if d, stale := compareEvents(x, ref, ctx.Events, "ctx", strict); d != "" {
			o.Viol = viol(pk, c, "action_trace", d, traceText(ref.Events), traceText(ctx.Events))
			return o
		} else if stale > 0 {
			o.Tolerated = append(o.Tolerated, "KF-C02-STALECTX")
		}
	}
	o.Observe = fmt.Sprintf("ok=%v end=%d throws=%d handled=%d value=%s", ref.Ok, ref.End, ref.Stats.Throws, ref.Stats.ThrowsHandled, trunc(want, 160))
	return o
}

// ---------------------------------------------------------------------------------
// C04 (dynamic part): the generated package initialises and parses; without
// -optimize-grammar and left recursion the blocks receive exactly the labels in scope
// (the C02 trace comparison).

func checkC04(x *X, c *Case, strict bool) *Outcome {
	g := x.G.Spec
	hasLR := false
	for _, r := range g.Rules {
		hasLR = hasLR || r.LR != nil
	}
	optg := false
	for _, p := range livePkgs(x.G) {
		optg = optg || p.OptGrammar
	}
	if !hasLR && !optg {
		return checkC02(x, c, strict)
	}
	ref := refpeg.Eval(g, c.Input, refOpts(c))
	if ref.OverBudget {
		return &Outcome{Discard: true}
	}
	if ex := knownExclusion(x, ref, strict); ex != "" {
		return &Outcome{Excluded: ex}
	}
	o := &Outcome{Tags: append(commonTags(c, ref), "run_only")}
	o.Nontrivial = len(ref.Events) >= 2
	for _, pk := range livePkgs(x.G) {
		resp, _ := runReal(x, pk, c, safetyBudget(ref))
		o.Evals++
		if resp.Panicked {
			o.Viol = viol(pk, c, "panic", fmt.Sprintf("Parse panicked: %v", resp.PanicVal), "", describeResp(resp))
			return o
		}
	}
	return o
}
