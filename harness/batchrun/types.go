// Package batchrun is compiled into every batch binary (Engine B): it draws cases with
// rapid for the generated parser packages linked into the binary, evaluates the
// reference interpreter, compares what the property names and writes a summary.
package batchrun

import (
	"encoding/json"
	"fmt"
	"hash/fnv"
	"sort"

	"verif/harness/gspec"
	"verif/harness/vrt"
)

// PkgMeta describes one generated parser package of a group.
type PkgMeta struct {
	Name         string   `json:"name"`
	Variant      string   `json:"variant"`
	Flags        []string `json:"flags"`
	Optimized    bool     `json:"optimized"`      // generated with -optimize-parser
	OptGrammar   bool     `json:"opt_grammar"`    // generated with -optimize-grammar
	HasInitState bool     `json:"has_init_state"` // InitState option exists
	Refused      bool     `json:"refused"`        // pigeon exited non-zero
	Exit         int      `json:"exit"`
	Stderr       string   `json:"stderr,omitempty"`
	CompileFail  bool     `json:"compile_fail,omitempty"`
	CompileErr   string   `json:"compile_err,omitempty"`
	GenBytes     int      `json:"gen_bytes,omitempty"`
	GrammarFile  string   `json:"grammar_file,omitempty"`
}

// Group is one grammar specification with the packages generated from it.
type Group struct {
	ID       int             `json:"id"`
	SpecFile string          `json:"spec_file"`
	Pkgs     []PkgMeta       `json:"pkgs"`
	Witness  string          `json:"witness,omitempty"` // replay file this group belongs to
	Case     json.RawMessage `json:"case,omitempty"`    // the case to replay (witness / replay groups)
	Spec     *gspec.Grammar  `json:"-"`
}

// Meta is written by the driver next to the batch binary.
type Meta struct {
	Property string   `json:"property"`
	Tier     string   `json:"tier"`
	Seed     uint64   `json:"seed"`
	Cases    int      `json:"cases"`
	KF       []string `json:"kf"` // open known findings (tolerated and counted)
	Groups   []*Group `json:"groups"`
}

// CaseOpts are the runtime options of a case.
type CaseOpts struct {
	Memoize      bool           `json:"memoize,omitempty"`
	Debug        bool           `json:"debug,omitempty"`
	Stats        bool           `json:"stats,omitempty"`
	DupOpts      bool           `json:"dup_opts,omitempty"`   // every option value passed twice
	PoisonBefore uint64         `json:"poison_before,omitempty"` // an extra call under this tiny budget first, result thrown away
	CallAfter    bool           `json:"call_after,omitempty"`    // an extra call on other bytes afterwards, before the value is looked at
	OptOrder     int            `json:"opt_order,omitempty"`  // the option list is rotated by this much and, when odd, reversed
	Via          string         `json:"via,omitempty"`        // "" Parse, "reader" ParseReader, "file" ParseFile (Filename names the file)
	WarmStats    bool           `json:"warm_stats,omitempty"` // the Stats value was used by an earlier parse
	MaxExpr      uint64         `json:"maxexpr,omitempty"`
	AllowInvalid bool           `json:"allow_invalid_utf8,omitempty"`
	NoRecover    bool           `json:"no_recover,omitempty"`
	Filename     string         `json:"filename,omitempty"`
	InitInts     map[string]int `json:"init_ints,omitempty"`
	InitList     []int          `json:"init_list,omitempty"`
	HasInitList  bool           `json:"has_init_list,omitempty"`
	Globals      map[string]int `json:"globals,omitempty"`
}

// Job is one concurrent parse of a C18 case.
type Job struct {
	Entry string    `json:"entry"`
	Input []byte    `json:"input"`
	Opts  CaseOpts  `json:"opts"`
	Plan  *vrt.Plan `json:"plan,omitempty"`
	// ViaReader: the job calls ParseReader instead of Parse.
	ViaReader bool `json:"via_reader,omitempty"`
}

// Case is one generated test case (everything but the grammar).
type Case struct {
	Entry string `json:"entry"` // "" default entry
	Input []byte `json:"input"`
	// InputText is informational (Go-quoted input); Input is authoritative.
	InputText string    `json:"input_text,omitempty"`
	Opts      CaseOpts  `json:"opts"`
	Plan      *vrt.Plan `json:"plan,omitempty"`
	Jobs      []Job     `json:"jobs,omitempty"`
	Procs     int       `json:"procs,omitempty"`
	// Aux carries property specific extras (e.g. the budget list of C16).
	Aux map[string]int `json:"aux,omitempty"`
}

func (c *Case) String() string {
	b, _ := json.Marshal(c)
	return string(b)
}

// Violation is a failed comparison.
type Violation struct {
	Group   int             `json:"group"`
	Pkg     string          `json:"pkg"`
	Variant string          `json:"variant"`
	Kind    string          `json:"kind"` // which comparison failed
	Diff    string          `json:"diff"`
	Case    *Case           `json:"case"`
	Expect  string          `json:"expected,omitempty"`
	Actual  string          `json:"actual,omitempty"`
	Witness string          `json:"witness,omitempty"`
	Spec    json.RawMessage `json:"spec,omitempty"`
}

// Sample is an explored case written to the evidence.
type Sample struct {
	Grammar string   `json:"grammar"`
	Flags   []string `json:"flags"`
	Entry   string   `json:"entry"`
	Input   string   `json:"input"`
	Opts    CaseOpts `json:"opts"`
	Tags    []string `json:"tags"`
	Observe string   `json:"observed"`
}

// Summary is what one shard reports.
type Summary struct {
	Shard        int               `json:"shard"`
	Evaluations  int               `json:"evaluations"` // executions compared against the oracle
	Cases        int               `json:"cases"`       // generated cases
	Nontrivial   int               `json:"distinct_nontrivial"`
	Discarded    int               `json:"discarded_budget"`
	Excluded     map[string]int    `json:"excluded_known"`
	Tags         map[string]int    `json:"tags"`
	Samples      []Sample          `json:"samples"`
	Violations   []*Violation      `json:"violations"`
	WitnessFails []string          `json:"witness_fails"` // witness/replay files that still fail (tolerance off)
	WitnessRuns  []string          `json:"witness_runs"`
	WitnessKinds map[string]string `json:"witness_kinds,omitempty"` // failing witness -> violation kind
	GroupsRun    int               `json:"groups_run"`
	Notes        []string          `json:"notes,omitempty"`
}

// Acc accumulates the results of a shard.
type Acc struct {
	Summary
	seen map[uint64]struct{}
}

func newAcc(shard int) *Acc {
	return &Acc{Summary: Summary{Shard: shard, Excluded: map[string]int{}, Tags: map[string]int{}}, seen: map[uint64]struct{}{}}
}

func caseHash(group int, pkg string, c *Case) uint64 {
	h := fnv.New64a()
	fmt.Fprintf(h, "%d|%s|", group, pkg)
	b, _ := json.Marshal(c)
	h.Write(b)
	return h.Sum64()
}

// note records one compared execution with its tags; nontrivial cases are counted once
// per distinct (group, case).
func (a *Acc) note(group int, c *Case, nontrivial bool, tags []string) {
	a.Cases++
	for _, t := range tags {
		a.Tags[t]++
	}
	if nontrivial {
		h := caseHash(group, "", c)
		if _, ok := a.seen[h]; !ok {
			a.seen[h] = struct{}{}
			a.Nontrivial++
		}
	}
}

func sortedKeys(m map[string]int) []string {
	out := make([]string, 0, len(m))
	for k := range m {
		out = append(out, k)
	}
	sort.Strings(out)
	return out
}
