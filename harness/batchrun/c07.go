package batchrun

import (
	"fmt"
	"strings"

	"pgregory.net/rapid"

	"verif/harness/gspec"
	"verif/harness/refpeg"
)

// C07, run-time half: a parser generated without -support-left-recursion from a grammar
// pigeon accepted never re-enters a rule at an offset at which that rule is already being
// evaluated, so it cannot recurse without bound. (The static half - which grammars are
// accepted - is checked by the tool engine, see harness/tool/vt_c07_test.go.)
//
// Without state, a parser that re-enters a rule at the same offset does so again and again:
// the observable is the amount of work. The reference interpreter evaluates the same
// grammar on the same input in ref.Stats.Steps expression evaluations (the C06 check ties
// Stats.ExprCnt of the real parser to exactly that number); the real parser runs under
// MaxExpressions(8*Steps+10000). Reaching that limit, exhausting the stack or hanging is the
// violation; any other difference from the reference is the business of other properties
// and is not reported here.

func init() {
	register(&Prop{ID: "C07", Draw: drawC07, Check: checkC07})
}

func drawC07(t *rapid.T, x *X) *Case {
	g := x.G.Spec
	c := &Case{Entry: drawEntry(t, g, false)}
	c.Input = gspec.SampleInput(t, g, entryRuleName(g, c.Entry), alphabetFor(g), 48)
	// recursion that only stops at a terminal failing is most fragile where terminals fail for
	// another reason than a wrong rune: at the end of the input
	if len(c.Input) > 0 && gspec.U(t, 3, "truncate") == 0 {
		rs := []rune(string(c.Input))
		c.Input = []byte(string(rs[:gspec.U(t, len(rs), "cut")]))
	}
	c.Plan = drawPlan(t, g, 1, true, false)
	// (a rule that the analysis treats as consuming must consume under every option: a third of
	// the cases run with Memoize, where a wrong end position of a cached result turns a
	// consuming rule into an empty match)
	c.Opts.Memoize = gspec.U(t, 3, "memoize") == 0
	return c
}

func checkC07(x *X, c *Case, strict bool) *Outcome {
	g := x.G.Spec
	ref := refpeg.Eval(g, c.Input, refOpts(c))
	if ref.OverBudget {
		return &Outcome{Discard: true}
	}
	if ex := knownExclusion(x, ref, strict); ex != "" {
		return &Outcome{Excluded: ex}
	}
	o := &Outcome{Tags: commonTags(c, ref)}
	if ref.Stats.ReentrySame {
		// the generators build grammars without left recursion; the reference would not
		// terminate otherwise
		o.Viol = viol(x.G.Pkgs[0], c, "reference_reentry", "the reference interpreter re-entered rule "+ref.Stats.ReentryRule+" at an offset at which it was active: the grammar is left-recursive and pigeon accepted it", describeRef(ref), "")
		return o
	}
	// non-trivial: the parse nests rule invocations at least three deep (a rule called from
	// a rule called from a rule) - recursion is what the property is about
	o.Nontrivial = ref.Stats.MaxDepth >= 3 && ref.Stats.TerminalAttempts >= 3
	if ref.Stats.MaxDepth >= 6 {
		o.Tags = append(o.Tags, "deep_nesting")
	}
	budget := safetyBudget(ref)
	if c.Opts.Memoize {
		if ex := memoFinding(x, ref, strict); ex != "" {
			return &Outcome{Excluded: ex}
		}
		if ref.Stats.ZeroWidthIters > 0 && x.KF["KF-C16-MEMOZERO"] && !strict {
			return &Outcome{Excluded: "KF-C16-MEMOZERO"}
		}
		o.Tags = append(o.Tags, "memoize")
	}
	for _, pk := range livePkgs(x.G) {
		if c.Opts.Memoize && pk.Optimized {
			continue
		}
		resp, _ := runReal(x, pk, c, budget)
		o.Evals++
		if strings.Contains(resp.ErrText, maxExprMsg) {
			o.Viol = viol(pk, c, "unbounded_recursion", fmt.Sprintf("the definition evaluates %d expressions on this input; the generated parser was stopped after %d (MaxExpressions): it recurses or loops without bound", ref.Stats.Steps, budget), describeRef(ref), describeResp(resp))
			return o
		}
		if resp.Panicked && strings.Contains(fmt.Sprint(resp.PanicVal), "stack") {
			o.Viol = viol(pk, c, "unbounded_recursion", fmt.Sprintf("Parse panicked: %v", resp.PanicVal), describeRef(ref), describeResp(resp))
			return o
		}
	}
	o.Observe = fmt.Sprintf("ok=%v steps=%d depth=%d", ref.Ok, ref.Stats.Steps, ref.Stats.MaxDepth)
	return o
}
