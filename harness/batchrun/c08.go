package batchrun

import (
	"fmt"

	"pgregory.net/rapid"

	"verif/harness/gspec"
	"verif/harness/refpeg"
	"verif/harness/vrt"
)

func init() {
	register(&Prop{ID: "C08", Draw: drawC08, Check: checkC08})
}

func drawC08(t *rapid.T, x *X) *Case {
	c := drawBase(t, x, 40)
	c.Plan = drawPlan(t, x.G.Spec, 5, true, false)
	c.Opts.Memoize = gspec.U(t, 2, "memo") == 0
	if x.G.Spec.HasState && gspec.U(t, 2, "initstate") == 0 {
		c.Opts.InitInts = map[string]int{"k1": gspec.U(t, 4, "initk1")}
	}
	return c
}

func checkC08(x *X, c *Case, strict bool) *Outcome {
	g := x.G.Spec
	plain := *c
	plain.Opts.Memoize = false
	ref := refpeg.Eval(g, c.Input, refOpts(&plain))
	if ref.OverBudget {
		return &Outcome{Discard: true}
	}
	if ex := knownExclusion(x, ref, strict); ex != "" {
		return &Outcome{Excluded: ex}
	}
	if g.NonLeaderEntry() && !strict && x.KF["KF-C08-NONLEADER"] {
		return &Outcome{Excluded: "KF-C08-NONLEADER"}
	}
	o := &Outcome{Tags: commonTags(c, ref)}
	o.Nontrivial = ref.Stats.LRGrowth >= 2
	if ref.Stats.LRGrowth > 0 {
		o.Tags = append(o.Tags, "growth")
	}
	once := true
	for _, n := range ref.Stats.LRCalls {
		if n > 1 {
			once = false
		}
	}
	if once {
		o.Tags = append(o.Tags, "single_invocation_per_offset")
	}
	if len(ref.Errs) > 0 {
		o.Tags = append(o.Tags, "errors")
	}
	for _, r := range g.Rules {
		if r.LR != nil && r.LR.Via != "" {
			o.Tags = append(o.Tags, "indirect_cycle")
			break
		}
	}
	nomatch := len(ref.Errs) == 1 && ref.Errs[0].Kind == "nomatch"
	want := vrt.Canon(ref.Value)
	for _, pk := range livePkgs(x.G) {
		runs := []Case{plain}
		if !pk.Optimized && !(memoUnsound(x, ref, strict)) {
			m := plain
			m.Opts.Memoize = true
			runs = append(runs, m)
		}
		for _, rc := range runs {
			rc := rc
			resp, ctx := runReal(x, pk, &rc, safetyBudget(ref))
			o.Evals++
			if d := compareOutcome(ref, resp, want, false); d != "" {
				kind := "lr_value"
				if rc.Opts.Memoize {
					kind = "lr_value_memoize"
				}
				o.Viol = viol(pk, &rc, kind, d, describeRef(ref), describeResp(resp))
				return o
			}
			if !once && !nomatch {
				// (which messages are reported is fixed even when a left-recursive rule is invoked
				// again at an offset; their order is not)
				if d := compareErrorSets(ref, resp); d != "" {
					o.Viol = viol(pk, &rc, "lr_error_set", d, describeRef(ref), describeResp(resp))
					return o
				}
			}
			if once && !rc.Opts.Memoize {
				// errors and state of the final, non-extending attempt must not be retained
				if !nomatch {
					if d := compareErrors(ref, resp, ctx); d != "" {
						o.Viol = viol(pk, &rc, "lr_errors", d, describeRef(ref), describeResp(resp))
						return o
					}
				}
				if d, _ := compareEvents(x, ref, ctx.Events, "state", strict); d != "" {
					o.Viol = viol(pk, &rc, "lr_state", d, traceText(ref.Events), traceText(ctx.Events))
					return o
				}
			}
		}
	}
	o.Observe = fmt.Sprintf("ok=%v end=%d growth=%d value=%s", ref.Ok, ref.End, ref.Stats.LRGrowth, trunc(want, 200))
	return o
}
