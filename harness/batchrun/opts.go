package batchrun

import (
	"fmt"
	"math"
	"strings"

	"pgregory.net/rapid"

	"verif/harness/gspec"
	"verif/harness/refpeg"
	"verif/harness/vrt"
)

func init() {
	register(&Prop{ID: "C06", Draw: drawC06, Check: checkC06})
	register(&Prop{ID: "C16", Draw: drawC16, Check: checkC16})
}

const maxExprMsg = "max number of expressions parsed"

// memoFinding returns the recorded Memoize finding the case falls into by an oracle-side
// predicate: the reference evaluation reaches a labelled expression a second time at an
// offset where it was evaluated before (the memo hit skips the label binding), or runs a
// code block a second time at one offset with different label values (the memo table is
// keyed by expression and offset only, so the block is not re-run). Inside left-recursive
// rules the expression memo is off and neither applies.
func memoFinding(x *X, ref *refpeg.Result, strict bool) string {
	if strict {
		return ""
	}
	if ref.Stats.LabelReeval > 0 && x.KF["KF-C06-MEMOLABEL"] {
		return "KF-C06-MEMOLABEL"
	}
	if ref.Stats.CodeReevalDiff > 0 && x.KF["KF-C06-MEMOCODE"] {
		return "KF-C06-MEMOCODE"
	}
	return ""
}

func memoUnsound(x *X, ref *refpeg.Result, strict bool) bool {
	return memoFinding(x, ref, strict) != ""
}

// ---------------------------------------------------------------------------------
// C06: Memoize / Debug / Statistics never change results; Memoize bounds the work

func drawC06(t *rapid.T, x *X) *Case {
	c := drawBase(t, x, 40)
	// pure plan: predicates are functions of (id, labels); faults fire on every invocation
	c.Plan = drawPlan(t, x.G.Spec, 2, true, false)
	// a third of the cases: many blocks report an error, each its own message (an expression
	// evaluated again after backtracking reports its errors again in the plain parse, once in
	// the memoized one: the returned lists must still agree)
	if ids := codeIDs(x.G.Spec); len(ids) > 0 {
		switch gspec.U(t, 6, "manyfaults") {
		case 0:
			c.Plan.Faults = nil
			for _, id := range ids {
				c.Plan.Faults = append(c.Plan.Faults, vrt.Fault{ID: id, Kind: "err", Msg: fmt.Sprintf("e%d", id)})
			}
		case 1:
			c.Plan.Faults = nil
			for _, id := range ids {
				if gspec.U(t, 2, "faulthere") == 0 {
					c.Plan.Faults = append(c.Plan.Faults, vrt.Fault{ID: id, Kind: "err", Msg: fmt.Sprintf("e%d", id%3)})
				}
			}
		}
	}
	k := 1 + gspec.U(t, 7, "optcombo") // at least one option on
	c.Opts.Memoize = k&1 != 0
	c.Opts.Stats = k&2 != 0
	// (Debug writes a trace: rare alone, every other time together with Memoize)
	c.Opts.Debug = k&4 != 0 && (gspec.U(t, 3, "debugrare") == 0 || (k&1 != 0 && gspec.U(t, 2, "debugmemo") == 0))
	if !c.Opts.Memoize && !c.Opts.Stats && !c.Opts.Debug {
		c.Opts.Memoize = true
	}
	// a collector kept for a whole corpus: a sixth of the Statistics cases
	c.Opts.WarmStats = c.Opts.Stats && gspec.U(t, 6, "warmstats") == 0
	if gspec.U(t, 100, "longinput") == 0 && len(c.Input) > 0 && x.G.Spec.Profile != "leftrec" {
		// (not for left-recursive grammars: growing a seed re-parses from the rule's start, which
		// is quadratic in the length by design)
		// one case in a hundred: a long input of 8000+ bytes (the memo table then holds well over a hundred thousand
		// entries; the work bound holds for every size)
		in := append([]byte{}, c.Input...)
		for len(in) < 8000 {
			in = append(in, c.Input...)
		}
		c.Input = in
		c.Opts.Memoize, c.Opts.Debug = true, false
		if x.G.Spec.Rule("Loop") != nil {
			c.Entry = "Loop"
		}
	}
	return c
}

// codeErrors filters the error list down to what code blocks produced (the synthesized
// no-match message is outside the property).
func codeErrors(r *vrt.Response) []string {
	var out []string
	for _, e := range r.Errs {
		if strings.Contains(e.Msg, "no match found, expected:") {
			continue
		}
		out = append(out, e.Msg)
	}
	return out
}

// lrMemoErrFinding recognises the recorded finding KF-C06-LRMEMOERR: an invocation of a
// left-recursive rule drops the errors of its final, non-extending growth attempt (and of an
// invocation that fails outright) but keeps the memo entries made meanwhile; when the parse
// reaches such an entry again, the plain parse runs the code block again and reports its
// error, the memoized parse does not. The finding covers exactly: the memoized list is the
// plain list minus messages that the left-recursive invocations dropped.
func lrMemoErrFinding(ref *refpeg.Result, plain, memo []string) bool {
	if len(ref.Stats.LRDroppedErrs) == 0 || len(memo) >= len(plain) {
		return false
	}
	j := 0
	for _, m := range plain {
		if j < len(memo) && memo[j] == m {
			j++
			continue
		}
		if ref.Stats.LRDroppedErrs[m] == 0 {
			return false
		}
	}
	return j == len(memo)
}

func checkC06(x *X, c *Case, strict bool) *Outcome {
	g := x.G.Spec
	base := *c
	base.Opts.Memoize, base.Opts.Debug, base.Opts.Stats, base.Opts.WarmStats = false, false, false, false
	ro := refOpts(&base)
	if len(c.Input) >= 3000 {
		ro.StepBudget = 8000000
	}
	ref := refpeg.Eval(g, c.Input, ro)
	if ref.OverBudget {
		return &Outcome{Discard: true}
	}
	if ex := knownExclusion(x, ref, strict); ex != "" {
		return &Outcome{Excluded: ex}
	}
	if c.Opts.Memoize {
		if ex := memoFinding(x, ref, strict); ex != "" {
			return &Outcome{Excluded: ex}
		}
	}
	o := &Outcome{Tags: commonTags(c, ref)}
	if len(c.Input) >= 3000 {
		o.Tags = append(o.Tags, "long_input")
	}
	for _, n := range []struct {
		on  bool
		tag string
	}{{c.Opts.Memoize, "memoize"}, {c.Opts.Debug, "debug"}, {c.Opts.Stats, "statistics"}} {
		if n.on {
			o.Tags = append(o.Tags, n.tag)
		}
	}
	nExpr := g.NodeCount()
	want := vrt.Canon(ref.Value)
	for _, pk := range livePkgs(x.G) {
		if pk.Optimized {
			continue
		}
		// default run, tied to the reference
		statsOnly := base
		statsOnly.Opts.Stats = true
		r0, _ := runReal(x, pk, &base, safetyBudget(ref))
		o.Evals++
		if d := compareOutcome(ref, r0, want, false); d != "" {
			o.Viol = viol(pk, c, "default_run", d, describeRef(ref), describeResp(r0))
			return o
		}
		safety := safetyBudget(ref)
		if c.Opts.WarmStats && c.Opts.Stats && ref.Stats.ZeroWidthIters == 0 {
			// a Statistics value that an earlier parse has used, and no MaxExpressions option at
			// all (the harness's own safety budget left out: the reference has shown that the
			// parse is finite): collecting statistics into a used value changes nothing
			safety = 0
			o.Tags = append(o.Tags, "warm_stats_no_budget")
		}
		r1, ctx1 := runReal(x, pk, c, safety)
		o.Evals++
		if r0.Panicked != r1.Panicked {
			o.Viol = viol(pk, c, "options_change_result", "panic behaviour differs", describeResp(r0), describeResp(r1))
			return o
		}
		if (r0.Value == nil) != (r1.Value == nil) || vrt.Canon(r0.Value) != vrt.Canon(r1.Value) {
			o.Viol = viol(pk, c, "options_change_result", fmt.Sprintf("value with default options %s, with %+v %s", trunc(vrt.Canon(r0.Value), 300), c.Opts, trunc(vrt.Canon(r1.Value), 300)), describeResp(r0), describeResp(r1))
			return o
		}
		if c.Opts.Memoize && x.KF["KF-C06-LRMEMOERR"] && !strict && lrMemoErrFinding(ref, codeErrors(r0), codeErrors(r1)) {
			return &Outcome{Excluded: "KF-C06-LRMEMOERR"}
		}
		if r0.HasErr != r1.HasErr {
			o.Viol = viol(pk, c, "options_change_result", fmt.Sprintf("error presence differs: default %q, with options %q", trunc(r0.ErrText, 200), trunc(r1.ErrText, 200)), describeResp(r0), describeResp(r1))
			return o
		}
		e0, e1 := codeErrors(r0), codeErrors(r1)
		if strings.Join(e0, "\n") != strings.Join(e1, "\n") {
			o.Viol = viol(pk, c, "options_change_errors", fmt.Sprintf("code-block errors differ: default %q, with options %q", e0, e1), describeResp(r0), describeResp(r1))
			return o
		}
		hasLR := false
		for _, r := range g.Rules {
			hasLR = hasLR || r.LR != nil
		}
		if c.Opts.Memoize && hasLR {
			o.Nontrivial = o.Nontrivial || ref.Stats.LRGrowth > 0
		} else if c.Opts.Memoize {
			// work bound and "evaluated at most once"
			// (the bound holds under every combination of the options: Debug stays as drawn)
			mc := *c
			mc.Opts.Stats, mc.Opts.WarmStats = true, false // (the count of this parse alone)
			rm, ctxm := runReal(x, pk, &mc, safetyBudget(ref))
			rs, _ := runReal(x, pk, &statsOnly, safetyBudget(ref))
			o.Evals += 2
			bound := uint64(nExpr * (len(c.Input) + 1))
			if rm.HasStats && rm.ExprCnt > bound {
				o.Viol = viol(pk, c, "memo_bound", fmt.Sprintf("Memoize(true): %d expressions evaluated > %d grammar expressions x (%d+1)", rm.ExprCnt, nExpr, len(c.Input)), "", describeResp(rm))
				return o
			}
			// each (expression, offset) pair is evaluated at most once: the memoized parse cannot
			// evaluate more expressions than the plain parse evaluates distinct pairs
			if rm.HasStats && rm.ExprCnt > uint64(ref.Stats.DistinctEvals) {
				o.Viol = viol(pk, c, "memo_once", fmt.Sprintf("Memoize(true): %d expressions evaluated, but the parse only reaches %d distinct (expression, offset) pairs", rm.ExprCnt, ref.Stats.DistinctEvals), "", describeResp(rm))
				return o
			}
			seen := map[[2]int]bool{}
			for _, ev := range ctxm.Events {
				if ev.Kind != "act" {
					continue
				}
				k := [2]int{ev.ID, ev.Off}
				if seen[k] {
					o.Viol = viol(pk, c, "memo_once", fmt.Sprintf("Memoize(true): action %d ran twice at offset %d", ev.ID, ev.Off), "", traceText(ctxm.Events))
					return o
				}
				seen[k] = true
			}
			_ = ctx1
			if rs.HasStats && rm.HasStats && rm.ExprCnt < rs.ExprCnt {
				o.Nontrivial = true
				o.Tags = append(o.Tags, "memo_hit")
			}
			if rs.HasStats && uint64(ref.Stats.Steps) != rs.ExprCnt && !hasLR {
				o.Viol = viol(pk, c, "expr_count", fmt.Sprintf("Stats.ExprCnt = %d, the definition evaluates %d expressions", rs.ExprCnt, ref.Stats.Steps), "", "")
				return o
			}
		} else if ref.Stats.TerminalAttempts >= 3 {
			o.Nontrivial = o.Nontrivial || len(ref.Events) > 0
		}
	}
	o.Observe = fmt.Sprintf("ok=%v opts=%+v value=%s", ref.Ok, c.Opts, trunc(want, 160))
	return o
}

// ---------------------------------------------------------------------------------
// C16: MaxExpressions bounds every parse

func drawC16(t *rapid.T, x *X) *Case {
	c := drawBase(t, x, 32)
	c.Plan = drawPlan(t, x.G.Spec, 2, true, false)
	c.Opts.Memoize = gspec.U(t, 3, "memo") == 0
	c.Opts.Stats = gspec.U(t, 2, "stats") == 0
	c.Opts.WarmStats = c.Opts.Stats && gspec.U(t, 5, "warmstats") == 0
	c.Opts.Debug = gspec.U(t, 12, "debug") == 0
	c.Opts.AllowInvalid = gspec.U(t, 4, "allowinv") == 0
	// Recover(false) is one of "the other runtime options": a sixth of the cases
	c.Opts.NoRecover = gspec.U(t, 6, "norecover") == 0 && !c.Opts.WarmStats
	// a block that panics whenever it runs: in an eighth of the cases, and in half of those
	// with Recover(false) (a budget must not change what becomes of the panic)
	if ids := codeIDs(x.G.Spec); len(ids) > 0 && !c.Opts.WarmStats && (gspec.U(t, 8, "panicblock") == 0 || (c.Opts.NoRecover && gspec.U(t, 2, "panicblocknr") == 0)) {
		c.Plan.Faults = append(c.Plan.Faults, vrt.Fault{ID: gspec.Pick(t, ids, "panicid"), Kind: gspec.Pick(t, []string{"panic_err", "panic_str", "panic_int"}, "panickind"), Msg: "boom"})
	}
	c.Aux = map[string]int{"mode": gspec.U(t, 10, "budgetmode"), "frac": gspec.U(t, 100, "budgetfrac")}
	return c
}

func budgetFor(mode, frac int, n uint64) uint64 {
	if n == 0 {
		n = 1
	}
	var b uint64
	switch mode {
	case 0:
		b = 1
	case 1:
		b = n - 1
	case 2:
		b = n
	case 3:
		b = n + 1
	case 4:
		b = n / 2
	case 5, 6:
		b = n * uint64(frac) / 100
	case 8:
		// budgets at the top of the range: any n > 0 is a budget
		b = []uint64{math.MaxUint64, 1 << 63, 1<<63 + 1, math.MaxUint64 - 1}[frac%4]
	case 9:
		b = []uint64{1<<63 - 1, 1 << 32, 1 << 31, 1<<32 + 1}[frac%4]
	default:
		b = 2*n + 7
	}
	if b == 0 {
		b = 1
	}
	return b
}

func hasMaxExprErr(r *vrt.Response) bool {
	if len(r.Errs) == 0 {
		return false
	}
	last := r.Errs[len(r.Errs)-1]
	return last.Inner != nil && last.Inner.Error() == maxExprMsg
}

func checkC16(x *X, c *Case, strict bool) *Outcome {
	g := x.G.Spec
	unb := *c
	unb.Opts.MaxExpr = 0
	refU := refpeg.Eval(g, c.Input, refOpts(&unb))
	diverges := refU.OverBudget
	if refU.Stats.ReentrySame {
		return &Outcome{Discard: true}
	}
	// (a diverging reference run still carries the statistics of the part it evaluated)
	if ex := knownExclusion(x, refU, strict); ex != "" {
		return &Outcome{Excluded: ex}
	}
	o := &Outcome{}
	if diverges {
		o.Tags = append(o.Tags, "diverging")
	} else {
		o.Tags = commonTags(c, refU)
	}
	mode, frac := c.Aux["mode"], c.Aux["frac"]
	hasLR := false
	for _, r := range g.Rules {
		hasLR = hasLR || r.LR != nil
	}
	if hasLR {
		o.Tags = append(o.Tags, "left_recursive")
		if diverges {
			// the reference re-evaluates nested left-recursive rules where pigeon re-uses the
			// memoized result of a leader: running out of the reference's step budget says
			// nothing about the parser here
			return &Outcome{Discard: true}
		}
	}
	for _, pk := range livePkgs(x.G) {
		if hasLR && pk.Optimized {
			// the evaluation count of a left-recursive parse is only known from the parser's own
			// statistics, which -optimize-parser removes
			continue
		}
		cc := *c
		if pk.Optimized {
			cc.Opts.Memoize, cc.Opts.Stats, cc.Opts.Debug = false, false, false
		}
		memo := cc.Opts.Memoize
		if memo && !strict && x.KF["KF-C16-MEMOZERO"] && (diverges || refU.Stats.ZeroWidthIters > 0) {
			o.Excluded = "KF-C16-MEMOZERO"
			return o
		}
		if ex := memoFinding(x, refU, strict); memo && ex != "" {
			o.Excluded = ex
			return o
		}
		if cc.Opts.WarmStats && cc.Opts.Stats {
			// A Stats value that an earlier parse has used: the count goes on from there, so the
			// budget is only an upper bound on what this parse may evaluate (never more than n
			// expressions, hence never more than n code-block events); nothing else is claimed.
			b := []uint64{1, 10, 100, 1000, 5000, 3, 50, 500}[mode%8]
			cc.Opts.MaxExpr = b
			resp, ctx := runReal(x, pk, &cc, 0)
			o.Evals++
			o.Tags = append(o.Tags, "warm_stats")
			if resp.Panicked {
				o.Viol = viol(pk, &cc, "panic_escapes", fmt.Sprintf("a panic escaped Parse: %v", resp.PanicVal), "", describeResp(resp))
				return o
			}
			if uint64(len(ctx.Events)) > b {
				o.Viol = viol(pk, &cc, "budget_exceeded", fmt.Sprintf("MaxExpressions(%d) with a Stats value that already counts %d: %d code blocks ran", b, resp.WarmExprCnt, len(ctx.Events)), "", describeResp(resp))
				return o
			}
			o.Nontrivial = o.Nontrivial || resp.WarmExprCnt > 0
			continue
		}
		var n uint64 // expressions the unbounded parse needs under these options
		var rU *vrt.Response
		if diverges {
			n = []uint64{1, 10, 100, 1000, 5000, 20000, 3, 50}[mode%8]
			cc.Opts.MaxExpr = n
		} else {
			if memo || hasLR {
				// N is only known from the parser's own statistics
				uc := cc
				uc.Opts.MaxExpr = 0
				uc.Opts.Stats = true
				rU, _ = runReal(x, pk, &uc, safetyBudget(refU))
				o.Evals++
				if !rU.HasStats {
					continue
				}
				n = rU.ExprCnt
			} else {
				n = uint64(refU.Stats.Steps)
				uc := cc
				uc.Opts.MaxExpr = 0
				rU, _ = runReal(x, pk, &uc, safetyBudget(refU))
				o.Evals++
			}
			cc.Opts.MaxExpr = budgetFor(mode, frac, n)
		}
		budget := cc.Opts.MaxExpr
		resp, ctx := runReal(x, pk, &cc, 0)
		o.Evals++
		if resp.Panicked && !cc.Opts.NoRecover {
			o.Viol = viol(pk, &cc, "panic_escapes", fmt.Sprintf("a panic escaped Parse: %v", resp.PanicVal), "", describeResp(resp))
			return o
		}
		if cc.Opts.NoRecover {
			// Recover(false): a panic - of a code block, or the one that ends an exhausted budget -
			// reaches the caller instead of being returned. Claimed here: the budget still bounds
			// the parse (checked below), a sufficient budget gives what the unbounded parse gives
			// (the same escaping panic included), an exhausted one ends in the budget error,
			// returned or escaping, unless a code block panicked first.
			o.Tags = append(o.Tags, "recover_off")
			if !memo && !hasLR {
				// the reference under the same budget and Recover(false) says whether a panic
				// escapes and which one (the real "unbounded" run above is no oracle for that: it
				// runs under the safety budget of the harness)
				rb := refpeg.Eval(g, c.Input, refOpts(&cc))
				if !rb.OverBudget && knownExclusion(x, rb, strict) == "" {
					// (an exhausted budget may end in the budget error returned or escaping: the
					// property only asks for it to be reported; a panic of a code block must escape)
					budgetEnd := rb.Panicked && fmt.Sprint(rb.PanicVal) == maxExprMsg
					if budgetEnd && !resp.Panicked && hasMaxExprErr(resp) && resp.Value == nil {
						// reported as an error: fine
					} else if rb.Panicked != resp.Panicked || (rb.Panicked && !samePanic(rb.PanicVal, resp.PanicVal, ctx)) {
						o.Viol = viol(pk, &cc, "recover_off_outcome", fmt.Sprintf("MaxExpressions(%d), Recover(false): want escaping panic=%v (%v), got %v (%v)", budget, rb.Panicked, rb.PanicVal, resp.Panicked, resp.PanicVal), describeRef(rb), describeResp(resp))
						return o
					}
				}
			}
			if uint64(len(ctx.Events)) > budget {
				o.Viol = viol(pk, &cc, "budget_exceeded", fmt.Sprintf("MaxExpressions(%d) but %d code blocks ran", budget, len(ctx.Events)), "", describeResp(resp))
				return o
			}
			if !diverges && budget >= n && rU != nil {
				if resp.Panicked != rU.Panicked || fmt.Sprint(resp.PanicVal) != fmt.Sprint(rU.PanicVal) ||
					(!resp.Panicked && (resp.HasErr != rU.HasErr || resp.ErrText != rU.ErrText || vrt.Canon(resp.Value) != vrt.Canon(rU.Value))) {
					o.Viol = viol(pk, &cc, "sufficient_budget_changes_result", fmt.Sprintf("N=%d, MaxExpressions(%d), Recover(false): result differs from the unbounded parse (panic escaped: unbounded %v %v, bounded %v %v)", n, budget, rU.Panicked, rU.PanicVal, resp.Panicked, resp.PanicVal), describeResp(rU), describeResp(resp))
					return o
				}
				o.Tags = append(o.Tags, "budget_sufficient")
			} else if !resp.Panicked && (!hasMaxExprErr(resp) || resp.Value != nil) {
				o.Nontrivial = true
				o.Viol = viol(pk, &cc, "exhausted_budget_must_report", fmt.Sprintf("MaxExpressions(%d), Recover(false): want the %q error, returned or escaping", budget, maxExprMsg), "", describeResp(resp))
				return o
			} else if resp.Panicked && !strings.Contains(fmt.Sprint(resp.PanicVal), maxExprMsg) && !planPanics(cc.Plan) {
				o.Viol = viol(pk, &cc, "exhausted_budget_must_report", fmt.Sprintf("MaxExpressions(%d), Recover(false): the escaping panic is neither the budget error nor one of the plan: %v", budget, resp.PanicVal), "", describeResp(resp))
				return o
			} else {
				o.Nontrivial = true
			}
			continue
		}
		// (iii) independent bound: code-block events <= budget
		if uint64(len(ctx.Events)) > budget {
			o.Viol = viol(pk, &cc, "budget_exceeded", fmt.Sprintf("MaxExpressions(%d) but %d code blocks ran", budget, len(ctx.Events)), "", describeResp(resp))
			return o
		}
		if resp.HasStats && budget < math.MaxUint64 && resp.ExprCnt > budget+1 {
			o.Viol = viol(pk, &cc, "budget_exceeded", fmt.Sprintf("MaxExpressions(%d) but Stats.ExprCnt = %d", budget, resp.ExprCnt), "", describeResp(resp))
			return o
		}
		if diverges {
			o.Nontrivial = true
			if !hasMaxExprErr(resp) || resp.Value != nil {
				o.Viol = viol(pk, &cc, "diverging_must_report", fmt.Sprintf("diverging parse with MaxExpressions(%d) must end with the %q error and a nil value", budget, maxExprMsg), "", describeResp(resp))
				return o
			}
			if !memo && !hasLR {
				// the reference with the same budget predicts the complete outcome
				rb := refpeg.Eval(g, c.Input, refOpts(&cc))
				if !rb.OverBudget && knownExclusion(x, rb, strict) == "" {
					if d := compareErrors(rb, resp, ctx); d != "" {
						o.Viol = viol(pk, &cc, "budget_outcome", d, describeRef(rb), describeResp(resp))
						return o
					}
				}
			}
			continue
		}
		if budget >= n {
			o.Tags = append(o.Tags, "budget_sufficient")
			if resp.HasErr != rU.HasErr || resp.ErrText != rU.ErrText || vrt.Canon(resp.Value) != vrt.Canon(rU.Value) {
				o.Viol = viol(pk, &cc, "sufficient_budget_changes_result", fmt.Sprintf("N=%d, MaxExpressions(%d): result differs from the unbounded parse", n, budget), describeResp(rU), describeResp(resp))
				return o
			}
		} else {
			o.Nontrivial = true
			o.Tags = append(o.Tags, "budget_exhausted")
			if !hasMaxExprErr(resp) || resp.Value != nil {
				o.Viol = viol(pk, &cc, "exhausted_budget_must_report", fmt.Sprintf("N=%d, MaxExpressions(%d): want nil value and the %q error last", n, budget, maxExprMsg), describeResp(rU), describeResp(resp))
				return o
			}
			if !memo && !hasLR {
				rb := refpeg.Eval(g, c.Input, refOpts(&cc))
				if !rb.OverBudget {
					if d := compareErrors(rb, resp, ctx); d != "" {
						o.Viol = viol(pk, &cc, "budget_outcome", d, describeRef(rb), describeResp(resp))
						return o
					}
				}
			}
		}
		if !memo && !hasLR && !pk.Optimized && rU != nil && rU.HasStats && rU.ExprCnt != uint64(refU.Stats.Steps) {
			o.Viol = viol(pk, &cc, "expr_count", fmt.Sprintf("Stats.ExprCnt = %d, the definition evaluates %d expressions", rU.ExprCnt, refU.Stats.Steps), "", "")
			return o
		}
	}
	o.Observe = fmt.Sprintf("diverges=%v steps=%d mode=%d opts=%+v", diverges, refU.Stats.Steps, mode, c.Opts)
	return o
}

// planPanics reports whether the fault plan lets some code block panic.
func planPanics(p *vrt.Plan) bool {
	if p == nil {
		return false
	}
	for _, f := range p.Faults {
		if strings.HasPrefix(f.Kind, "panic") {
			return true
		}
	}
	return false
}
