package batchrun

import (
	"fmt"
	"strings"
	"unicode"
	"unicode/utf8"

	"pgregory.net/rapid"

	"verif/harness/gspec"
	"verif/harness/refpeg"
	"verif/harness/vrt"
)

func init() {
	register(&Prop{ID: "C10", Draw: drawC10, Check: checkC10})
	register(&Prop{ID: "C09", Draw: drawC09, Check: checkC09})
	register(&Prop{ID: "C15", Draw: drawC15, Check: checkC15})
}

// ---------------------------------------------------------------------------------
// C10: -optimize-parser is observationally equivalent

func drawC10(t *rapid.T, x *X) *Case {
	c := drawBase(t, x, 40)
	c.Plan = drawPlan(t, x.G.Spec, 3, false, true)
	c.Plan.TryStateWrites = rapid.Bool().Draw(t, "trywrites")
	if x.G.Spec.HasState && rapid.Bool().Draw(t, "initstate") {
		c.Opts.InitInts = map[string]int{"k1": gspec.U(t, 6, "initk1")}
	}
	if gspec.U(t, 8, "invalidutf8") == 0 {
		c.Input = gspec.InvalidUTF8Edit(t, c.Input)
	}
	return c
}

func checkC10(x *X, c *Case, strict bool) *Outcome {
	g := x.G.Spec
	ref := refpeg.Eval(g, c.Input, refOpts(c))
	if ref.OverBudget {
		return &Outcome{Discard: true}
	}
	pks := livePkgs(x.G)
	o := &Outcome{Tags: commonTags(c, ref)}
	o.Nontrivial = len(ref.Events) >= 1 || len(ref.Errs) >= 1
	if g.HasState {
		o.Tags = append(o.Tags, "stateful")
	}
	if len(ref.Errs) > 0 {
		o.Tags = append(o.Tags, "errors")
	}
	if ref.Stats.LRGrowth > 0 {
		o.Tags = append(o.Tags, "left_recursion_growth")
	}
	var std, opt []PkgMeta
	for _, p := range pks {
		if p.Optimized {
			opt = append(opt, p)
		} else {
			std = append(std, p)
		}
	}
	if len(std) == 0 || len(opt) == 0 {
		return &Outcome{Discard: true}
	}
	rs, cs := runReal(x, std[0], c, safetyBudget(ref))
	for _, p := range opt {
		ro, co := runReal(x, p, c, safetyBudget(ref))
		o.Evals += 2
		if rs.Panicked != ro.Panicked || fmt.Sprint(rs.PanicVal) != fmt.Sprint(ro.PanicVal) {
			o.Viol = viol(p, c, "panic_differs", fmt.Sprintf("standard panicked=%v(%v) optimized panicked=%v(%v)", rs.Panicked, rs.PanicVal, ro.Panicked, ro.PanicVal), describeResp(rs), describeResp(ro))
			return o
		}
		if vrt.Canon(rs.Value) != vrt.Canon(ro.Value) {
			o.Viol = viol(p, c, "value_differs", fmt.Sprintf("standard %s optimized %s", trunc(vrt.Canon(rs.Value), 300), trunc(vrt.Canon(ro.Value), 300)), describeResp(rs), describeResp(ro))
			return o
		}
		if rs.HasErr != ro.HasErr || rs.ErrText != ro.ErrText {
			o.Viol = viol(p, c, "errors_differ", fmt.Sprintf("standard %q optimized %q", trunc(rs.ErrText, 300), trunc(ro.ErrText, 300)), describeResp(rs), describeResp(ro))
			return o
		}
		// state-related observations (and, more generally, everything code blocks see)
		if len(cs.Events) != len(co.Events) {
			o.Viol = viol(p, c, "trace_differs", fmt.Sprintf("standard ran %d code blocks, optimized %d", len(cs.Events), len(co.Events)), traceText(cs.Events), traceText(co.Events))
			return o
		}
		for i := range cs.Events {
			if cs.Events[i] != co.Events[i] {
				o.Viol = viol(p, c, "trace_differs", fmt.Sprintf("event %d: standard %s, optimized %s", i, cs.Events[i], co.Events[i]), traceText(cs.Events), traceText(co.Events))
				return o
			}
		}
	}
	o.Observe = fmt.Sprintf("value=%s errs=%q events=%d", trunc(vrt.Canon(rs.Value), 120), trunc(rs.ErrText, 120), len(cs.Events))
	return o
}

// ---------------------------------------------------------------------------------
// C09: -optimize-grammar preserves the language and what actions see

func drawC09(t *rapid.T, x *X) *Case {
	c := drawBase(t, x, 40)
	c.Plan = drawPlan(t, x.G.Spec, 0, false, false)
	return c
}

type atom struct {
	bytes string
	node  string
	isN   bool
}

// normalForm flattens action-less nesting, drops nils and concatenates adjacent byte
// runs: exactly the regrouping the property allows for structural values.
func normalForm(v any) string {
	var atoms []atom
	var walk func(v any)
	walk = func(v any) {
		switch x := v.(type) {
		case nil:
		case []byte:
			if len(atoms) > 0 && !atoms[len(atoms)-1].isN {
				atoms[len(atoms)-1].bytes += string(x)
			} else {
				atoms = append(atoms, atom{bytes: string(x)})
			}
		case []any:
			for _, e := range x {
				walk(e)
			}
		case *vrt.Node:
			var b strings.Builder
			fmt.Fprintf(&b, "N%d{%q@%d:%d(%d)", x.ID, x.Text, x.Line, x.Col, x.Off)
			for i, n := range x.Names {
				b.WriteString(" " + n + "=")
				if i < len(x.Vals) {
					b.WriteString(normalForm(x.Vals[i]))
				}
			}
			b.WriteString("}")
			atoms = append(atoms, atom{node: b.String(), isN: true})
		default:
			atoms = append(atoms, atom{node: fmt.Sprintf("?%T", v), isN: true})
		}
	}
	walk(v)
	var b strings.Builder
	b.WriteString("<")
	for i, a := range atoms {
		if i > 0 {
			b.WriteString(" ")
		}
		if a.isN {
			b.WriteString(a.node)
		} else if a.bytes != "" {
			fmt.Fprintf(&b, "%q", a.bytes)
		}
	}
	b.WriteString(">")
	return b.String()
}

func actionTrace(ev []vrt.Event) []string {
	var out []string
	for _, e := range ev {
		if e.Kind == "act" {
			out = append(out, fmt.Sprintf("act#%d %q@%d:%d(%d)", e.ID, e.Text, e.Line, e.Col, e.Off))
		}
	}
	return out
}

func checkC09(x *X, c *Case, strict bool) *Outcome {
	g := x.G.Spec
	ref := refpeg.Eval(g, c.Input, refOpts(c))
	if ref.OverBudget {
		return &Outcome{Discard: true}
	}
	if ex := knownExclusion(x, ref, strict); ex != "" {
		return &Outcome{Excluded: ex}
	}
	if !strict && x.KF["KF-C09-ICFOLD"] && icLitFoldsIntoTable(x) {
		// the optimizer's face of KF-C15-ICLOWER: with -optimize-basic-latin on both sides, a
		// one-rune ignore-case literal whose rune lies behind Basic Latin while its lower case
		// lies in it ( "\u212a"i ) is a literal on one side and, folded into a class with its
		// neighbours, a member the lookup table does not know on the other
		return &Outcome{Excluded: "KF-C09-ICFOLD"}
	}
	if !strict && x.KF["KF-C09-INLINESCOPE"] && g.InlineLabelClash() {
		// the run-time face of KF-C04-OPTSCOPE (see Grammar.InlineLabelClash)
		return &Outcome{Excluded: "KF-C09-INLINESCOPE"}
	}
	o := &Outcome{Tags: commonTags(c, ref)}
	var u, opt []PkgMeta
	for _, p := range x.G.Pkgs {
		if p.Refused || p.CompileFail {
			if p.OptGrammar {
				return &Outcome{Excluded: "optimized_parser_unavailable(C04/C13)"}
			}
			continue
		}
		if p.OptGrammar {
			opt = append(opt, p)
		} else {
			u = append(u, p)
		}
	}
	if len(u) == 0 || len(opt) == 0 {
		return &Outcome{Discard: true}
	}
	ru, cu := runReal(x, u[0], c, safetyBudget(ref))
	o.Evals++
	// U is tied to PEG semantics through the reference
	if d := compareOutcome(ref, ru, vrt.Canon(ref.Value), true); d != "" {
		o.Viol = viol(u[0], c, "unoptimized_vs_reference", d, describeRef(ref), describeResp(ru))
		return o
	}
	o.Nontrivial = len(actionTrace(cu.Events)) >= 1 && ref.Stats.TerminalAttempts >= 2
	for _, p := range opt {
		ro, co := runReal(x, p, c, safetyBudget(ref))
		o.Evals++
		if ro.Panicked {
			o.Viol = viol(p, c, "panic", fmt.Sprintf("optimized parser panicked: %v", ro.PanicVal), describeResp(ru), describeResp(ro))
			return o
		}
		if (ru.Value == nil && ru.HasErr) != (ro.Value == nil && ro.HasErr) {
			o.Viol = viol(p, c, "language_differs", fmt.Sprintf("unoptimized failed=%v, optimized failed=%v", ru.Value == nil && ru.HasErr, ro.Value == nil && ro.HasErr), describeResp(ru), describeResp(ro))
			return o
		}
		if nu, no := normalForm(ru.Value), normalForm(ro.Value); nu != no {
			o.Viol = viol(p, c, "value_differs", fmt.Sprintf("normal forms differ: unoptimized %s optimized %s", trunc(nu, 300), trunc(no, 300)), describeResp(ru), describeResp(ro))
			return o
		}
		au, ao := actionTrace(cu.Events), actionTrace(co.Events)
		if strings.Join(au, "\n") != strings.Join(ao, "\n") {
			o.Viol = viol(p, c, "action_trace_differs", fmt.Sprintf("unoptimized %v optimized %v", au, ao), traceText(cu.Events), traceText(co.Events))
			return o
		}
	}
	o.Observe = fmt.Sprintf("ok=%v nf=%s", ref.Ok, trunc(normalForm(ru.Value), 160))
	return o
}

// ---------------------------------------------------------------------------------
// C15: -optimize-basic-latin is a pure optimisation

var c15NonASCII = func() []rune {
	base := []rune{0x80, 0xA0, 0xB5, 0xC0, 0xC9, 0xDF, 0xE0, 0xE9, 0xFF, 0x130, 0x131, 0x17F, 0x1C4, 0x1C5, 0x1C6, 0x2B0, 0x300, 0x301, 0x370, 0x391, 0x3A9, 0x3B1, 0x3C9, 0x3C2, 0x3C3,
		0x410, 0x416, 0x430, 0x436, 0x5D0, 0x660, 0x966, 0xE01, 0x1E9E, 0x2028, 0x2029, 0x2160, 0x2170, 0x212A, 0x212B, 0x2190, 0x3000, 0x3042, 0x4E00, 0x65E5, 0x9FFF, 0xAC00, 0xD7FF, 0xE000, 0xFB01, 0xFEFF, 0xFF21, 0xFF41, 0xFFFD, 0xFFFE,
		0x10000, 0x10400, 0x10428, 0x1D400, 0x1F600, 0x1F601, 0x20000, 0xE0001, 0x10FFFF}
	return base
}()

func drawC15(t *rapid.T, x *X) *Case {
	g := x.G.Spec
	c := &Case{Entry: gspec.Pick(t, g.Entries, "entry")}
	// extra sampled runes in addition to the fixed sets
	n := 4
	var b []byte
	for i := 0; i < n; i++ {
		r := rune(gspec.U(t, 0x2FFFF, "extrarune"))
		if r >= 0xD800 && r <= 0xDFFF {
			r = 0xFFFD
		}
		b = utf8.AppendRune(b, r)
	}
	c.Input = b
	return c
}

func checkC15(x *X, c *Case, strict bool) *Outcome {
	g := x.G.Spec
	r := g.Rule(c.Entry)
	if r == nil || r.Expr.K != gspec.KClass {
		return &Outcome{Discard: true}
	}
	cls := r.Expr
	var plain, latin []PkgMeta
	for _, p := range livePkgs(x.G) {
		if has(p.Flags, "-optimize-basic-latin") {
			latin = append(latin, p)
		} else {
			plain = append(plain, p)
		}
	}
	if len(plain) == 0 || len(latin) == 0 {
		return &Outcome{Discard: true}
	}
	o := &Outcome{}
	kinds := 0
	for _, n := range []int{len(cls.Chars), len(cls.Ranges), len(cls.UClasses)} {
		if n > 0 {
			kinds++
		}
	}
	o.Nontrivial = kinds >= 2 || cls.IC || cls.Inv
	if cls.IC {
		o.Tags = append(o.Tags, "ignore_case")
	}
	if cls.Inv {
		o.Tags = append(o.Tags, "inverted")
	}
	if len(cls.UClasses) > 0 {
		o.Tags = append(o.Tags, "unicode_class")
	}
	var inputs [][]byte
	for i := 0; i < 128; i++ {
		inputs = append(inputs, []byte{byte(i)})
	}
	for _, rn := range c15NonASCII {
		inputs = append(inputs, utf8.AppendRune(nil, rn))
	}
	for rest := c.Input; len(rest) > 0; {
		_, w := utf8.DecodeRune(rest)
		inputs = append(inputs, rest[:w])
		rest = rest[w:]
	}
	// the class's own members and their neighbours: each character and range end, the runes
	// just outside, the other case of each (at most 160, spread evenly over a wide class)
	var derived []rune
	seenR := map[rune]bool{}
	addR := func(rs ...rune) {
		for _, r := range rs {
			if r >= 0 && r <= 0x10FFFF && !(r >= 0xD800 && r <= 0xDFFF) && !seenR[r] {
				seenR[r] = true
				derived = append(derived, r)
			}
		}
	}
	for _, ch := range cls.Chars {
		addR(ch, ch-1, ch+1, unicode.ToUpper(ch), unicode.ToLower(ch))
	}
	for i := 0; i+1 < len(cls.Ranges); i += 2 {
		lo, hi := cls.Ranges[i], cls.Ranges[i+1]
		addR(lo, hi, lo-1, hi+1, (lo+hi)/2, unicode.ToUpper(lo), unicode.ToLower(hi))
	}
	step := 1 + len(derived)/160
	for i := 0; i < len(derived); i += step {
		if derived[i] >= 128 {
			inputs = append(inputs, utf8.AppendRune(nil, derived[i]))
		}
	}
	if len(cls.Chars)+len(cls.Ranges)/2+len(cls.UClasses) >= 64 {
		o.Tags = append(o.Tags, "wide_class_64_or_more_members")
	}
	inputs = append(inputs, []byte{}, []byte{0xff}, []byte{0x80}, []byte{0xc3}, []byte{0xe6, 0x97}, []byte{0xed, 0xa0, 0x80})
	excluded := 0
	for _, in := range inputs {
		cc := &Case{Entry: c.Entry, Input: in, Opts: CaseOpts{AllowInvalid: true}}
		rn, w := utf8.DecodeRune(in)
		icUnsafe := false
		var wantMatch bool
		if w > 0 {
			member := refpeg.ClassMember(cls, rn)
			wantMatch = member != cls.Inv
			if cls.IC {
				ref := refpeg.Eval(g, in, refOpts(cc))
				icUnsafe = ref.Stats.ICUnsafe > 0
			}
		}
		if icUnsafe && !strict && x.KF["KF-C15-ICLOWER"] {
			excluded++
			continue
		}
		rp, _ := runReal(x, plain[0], cc, 100000)
		rl, _ := runReal(x, latin[0], cc, 100000)
		o.Evals += 2
		mp, ml := rp.Value != nil, rl.Value != nil
		if mp != ml || vrt.Canon(rp.Value) != vrt.Canon(rl.Value) {
			o.Viol = viol(latin[0], cc, "table_vs_general", fmt.Sprintf("class %s on %q (%U): general path match=%v, basic-latin table match=%v", gspec.ClassText(cls), in, rn, mp, ml), describeResp(rp), describeResp(rl))
			return o
		}
		if mp != wantMatch {
			o.Viol = viol(plain[0], cc, "class_decision", fmt.Sprintf("class %s on %q (%U): definition says match=%v, both parsers say %v", gspec.ClassText(cls), in, rn, wantMatch, mp), "", describeResp(rp))
			return o
		}
	}
	if excluded > 0 {
		o.Tolerated = append(o.Tolerated, "KF-C15-ICLOWER")
		o.Tags = append(o.Tags, "some_runes_excluded_known")
	}
	o.Observe = fmt.Sprintf("class %s: %d inputs (all 128 Basic Latin runes), %d excluded", gspec.ClassText(cls), len(inputs), excluded)
	return o
}

func has(flags []string, f string) bool {
	for _, x := range flags {
		if x == f {
			return true
		}
	}
	return false
}

// icLitFoldsIntoTable: some package of the group was generated with -optimize-basic-latin and
// the grammar holds, as an alternative of a choice, a one-rune ignore-case literal r >= U+0080
// with unicode.ToLower(r) < U+0080.
func icLitFoldsIntoTable(x *X) bool {
	latin := false
	for _, p := range x.G.Pkgs {
		latin = latin || has(p.Flags, "-optimize-basic-latin")
	}
	if !latin {
		return false
	}
	found := false
	qual := func(a *gspec.Expr) bool {
		if a.K != gspec.KLit || !a.IC {
			return false
		}
		rs := []rune(string(a.Val))
		return len(rs) == 1 && rs[0] >= 0x80 && unicode.ToLower(rs[0]) < 0x80
	}
	for _, r := range x.G.Spec.Rules {
		// (a rule that is such a literal is inlined wherever it is referred to)
		found = found || qual(r.Expr)
		gspec.Walk(r.Expr, func(e *gspec.Expr) {
			if e.K != gspec.KChoice {
				return
			}
			for _, a := range e.Sub {
				found = found || qual(a)
			}
		})
	}
	return found
}
