package batchrun

import (
	"fmt"
	"os"
	"path/filepath"
	"strings"

	"pgregory.net/rapid"

	"verif/harness/gspec"
	"verif/harness/refpeg"
	"verif/harness/vrt"
)

func init() {
	register(&Prop{ID: "C01", Draw: drawC01, Check: checkC01})
}

func alphabetFor(g *gspec.Grammar) []rune {
	if g.Profile == "utf8" || g.Profile == "frontend" {
		return gspec.Alphabet
	}
	return gspec.SafeAlphabet
}

// drawEntry picks an entry rule: mostly a listed entry, sometimes the default.
func drawEntry(t *rapid.T, g *gspec.Grammar, allowBad bool) string {
	k := gspec.U(t, 20, "entrykind")
	switch {
	case k == 0:
		return ""
	case k == 1 && allowBad:
		return "NoSuchRule"
	case k == 2:
		return EntryEmptyOption // Entrypoint(""): documented to select the first rule
	}
	return gspec.Pick(t, g.Entries, "entry")
}

// EntryEmptyOption makes the adapter pass the option Entrypoint("").
const EntryEmptyOption = "\x00empty"

func entryRuleName(g *gspec.Grammar, entry string) string {
	if entry == "" || entry == EntryEmptyOption {
		return g.Rules[0].Name
	}
	return entry
}

func drawC01(t *rapid.T, x *X) *Case {
	g := x.G.Spec
	c := &Case{Entry: drawEntry(t, g, true)}
	c.Input = gspec.SampleInput(t, g, entryRuleName(g, c.Entry), alphabetFor(g), 48)
	longInput(t, x, c)
	if gspec.U(t, 4, "fname") == 0 {
		c.Opts.Filename = "f.txt"
	}
	// (a call is one-shot, see drawBase)
	if gspec.U(t, 25, "poisonbefore") == 0 {
		c.Opts.PoisonBefore = uint64(3 + gspec.U(t, 40, "poisonbudget"))
	}
	c.Opts.CallAfter = gspec.U(t, 8, "callafter") == 0
	switch gspec.U(t, 10, "entrypoint") {
	case 0:
		c.Opts.Via = "reader"
	case 1:
		c.Opts.Via = "file"
		c.Opts.Filename = filepath.Join(os.TempDir(), fmt.Sprintf("vrt-parsefile-%d.txt", os.Getpid()))
	}
	return c
}

// safetyBudget is the MaxExpressions safety net for real parses: generous enough that it
// only triggers when the parser does far more work than the definition requires.
func safetyBudget(ref *refpeg.Result) uint64 { return uint64(8*ref.Stats.Steps + 10000) }

// commonTags classifies a case by the oracle's own accounting.
func commonTags(c *Case, ref *refpeg.Result) []string {
	var tags []string
	if ref.Ok {
		tags = append(tags, "matched")
	} else if ref.FailOff == 0 {
		tags = append(tags, "failed_at_0")
	} else {
		tags = append(tags, "failed_later")
	}
	if ref.Stats.Backtracks > 0 {
		tags = append(tags, "backtracked")
	}
	if ref.Stats.PredEvals > 0 {
		tags = append(tags, "predicate")
	}
	if ref.Stats.LRGrowth > 0 {
		tags = append(tags, "left_recursion_growth")
	}
	if ref.Stats.MultiByte {
		tags = append(tags, "multibyte")
	}
	if strings.Contains(string(c.Input), "\n") {
		tags = append(tags, "newline")
	}
	if c.Entry == "" {
		tags = append(tags, "default_entry")
	}
	if len(c.Input) == 0 {
		tags = append(tags, "empty_input")
	}
	if len(c.Input) >= 256 {
		tags = append(tags, "input_256_or_longer")
	}
	if len(c.Input) >= 4096 {
		tags = append(tags, "input_4096_or_longer")
	}
	if n := strings.Count(string(c.Input), "\n"); n >= 256 {
		tags = append(tags, "lines_256_or_more")
	}
	return tags
}

// knownExclusion returns the known finding the case falls into by an oracle-side
// predicate over the case itself ("" = none).
func knownExclusion(x *X, ref *refpeg.Result, strict bool) string {
	if strict {
		return ""
	}
	if ref.Stats.ICUnsafe > 0 && x.KF["KF-C15-ICLOWER"] {
		return "KF-C15-ICLOWER"
	}
	if ref.Stats.FFFDAtEOF > 0 && x.KF["KF-C17-FFFD-EOF"] {
		return "KF-C17-FFFD-EOF"
	}
	if x.G.Spec.NonLeaderEntry() && x.KF["KF-C08-NONLEADER"] {
		return "KF-C08-NONLEADER"
	}
	return ""
}

func checkC01(x *X, c *Case, strict bool) *Outcome {
	g := x.G.Spec
	ref := refpeg.Eval(g, c.Input, refOpts(c))
	if ref.OverBudget {
		return &Outcome{Discard: true}
	}
	if ex := knownExclusion(x, ref, strict); ex != "" {
		return &Outcome{Excluded: ex}
	}
	o := &Outcome{Tags: commonTags(c, ref)}
	o.Nontrivial = ref.Stats.TerminalAttempts >= 3 && (ref.Stats.Backtracks >= 1 || ref.Stats.PredEvals >= 1)
	want := vrt.Canon(ref.Value)
	for _, pk := range livePkgs(x.G) {
		resp, _ := runReal(x, pk, c, safetyBudget(ref))
		o.Evals++
		if d := compareOutcome(ref, resp, want, true); d != "" {
			o.Viol = viol(pk, c, "match_value", d, describeRef(ref), describeResp(resp))
			return o
		}
	}
	o.Observe = fmt.Sprintf("ok=%v end=%d value=%s", ref.Ok, ref.End, trunc(want, 200))
	return o
}

func describeRef(r *refpeg.Result) string {
	return fmt.Sprintf("ok=%v end=%d value=%s errs=%q panic=%v", r.Ok, r.End, trunc(vrt.Canon(r.Value), 400), r.ErrText, r.PanicVal)
}

func describeResp(r *vrt.Response) string {
	return fmt.Sprintf("value=%s haserr=%v errs=%q panicked=%v(%v)", trunc(vrt.Canon(r.Value), 400), r.HasErr, r.ErrText, r.Panicked, r.PanicVal)
}

// compareOutcome compares success/failure and the value. When a parse fails pigeon
// returns a nil value and a non-nil error; when it succeeds without recorded errors the
// error is nil.
func compareOutcome(ref *refpeg.Result, resp *vrt.Response, want string, errorFree bool) string {
	if resp.Panicked {
		return fmt.Sprintf("Parse panicked: %v", resp.PanicVal)
	}
	if ref.BadEntry {
		if !resp.HasErr || resp.ErrText != ref.ErrText {
			return fmt.Sprintf("invalid entrypoint: want error %q, got %q", ref.ErrText, resp.ErrText)
		}
		return ""
	}
	if ref.Ok {
		if got := vrt.Canon(resp.Value); got != want {
			if resp.Value == nil && resp.HasErr {
				return fmt.Sprintf("reference matches (end=%d) but Parse failed: %s", ref.End, trunc(resp.ErrText, 300))
			}
			return fmt.Sprintf("value differs: want %s got %s", trunc(want, 300), trunc(got, 300))
		}
		if errorFree && len(ref.Errs) == 0 && resp.HasErr {
			return fmt.Sprintf("reference matches without errors but Parse returned error %q", trunc(resp.ErrText, 300))
		}
		return ""
	}
	if resp.Value != nil {
		return fmt.Sprintf("reference fails but Parse returned value %s", trunc(vrt.Canon(resp.Value), 300))
	}
	if !resp.HasErr {
		return "reference fails but Parse returned (nil, nil)"
	}
	return ""
}
