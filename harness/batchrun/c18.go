package batchrun

import (
	"fmt"
	"runtime"
	"sync"
	"time"

	"pgregory.net/rapid"

	"verif/harness/gspec"
	"verif/harness/refpeg"
	"verif/harness/vrt"
)

func init() {
	register(&Prop{ID: "C18", Draw: drawC18, Check: checkC18})
}

func drawC18(t *rapid.T, x *X) *Case {
	g := x.G.Spec
	c := &Case{Procs: gspec.Pick(t, []int{2, 4, 16}, "procs")}
	n := 2 + gspec.U(t, 15, "njobs")
	if gspec.U(t, 8, "manyjobs") == 0 {
		n = 32
	}
	// a sixth of the cases trace every call (the trace goes to the discarded standard output;
	// whatever the tracing code shares between parsers is shared by all calls of the case)
	debugCase := gspec.U(t, 6, "debugcase") == 0
	if debugCase && n > 6 {
		// (tracing under the race detector is slow: a traced case has few jobs)
		n = 6
	}
	for i := 0; i < n; i++ {
		j := Job{Entry: drawEntry(t, g, false)}
		j.Opts.Debug = debugCase
		j.Input = gspec.SampleInput(t, g, entryRuleName(g, j.Entry), alphabetFor(g), 40)
		// longer inputs keep the parses busy long enough to overlap
		if gspec.U(t, 2, "repeat") == 0 && len(j.Input) > 0 && len(j.Input) < 20 {
			j.Input = append(append([]byte{}, j.Input...), j.Input...)
		}
		j.Plan = drawPlan(t, g, 2, true, false)
		j.Plan.TryStateWrites = gspec.U(t, 2, "trywrites") == 0
		// calls that end in a recovered panic next to calls that do not: a fifth of the jobs let
		// one block panic whenever it runs, a tenth run under a budget of a few expressions
		if ids := codeIDs(g); len(ids) > 0 && gspec.U(t, 5, "panicjob") == 0 {
			j.Plan.Faults = append(j.Plan.Faults, vrt.Fault{ID: gspec.Pick(t, ids, "panicid"), Kind: gspec.Pick(t, []string{"panic_err", "panic_str"}, "panickind"), Msg: "boom"})
		}
		if gspec.U(t, 10, "tinybudget") == 0 {
			j.Opts.MaxExpr = uint64(3 + gspec.U(t, 40, "tinybudgetn"))
		}
		// a tenth of the jobs run with Recover(false): their panics reach the caller (the
		// adapter), and nobody else may notice
		j.Opts.NoRecover = gspec.U(t, 10, "norecoverjob") == 0
		j.ViaReader = gspec.U(t, 3, "viareader") == 0
		if gspec.U(t, 5, "invalidutf8") == 0 {
			j.Input = gspec.InvalidUTF8Edit(t, j.Input)
		}
		j.Opts.AllowInvalid = gspec.U(t, 3, "allowinvalid") == 0
		j.Opts.Memoize = gspec.U(t, 3, "memo") == 0 && !g.HasStatePred() // (see Grammar.HasStatePred)
		j.Opts.Stats = gspec.U(t, 4, "stats") == 0
		if g.HasState && gspec.U(t, 2, "initstate") == 0 {
			j.Opts.InitInts = map[string]int{"k1": gspec.U(t, 5, "initk1")}
			j.Opts.HasInitList = gspec.U(t, 2, "initlist") == 0
			j.Opts.InitList = []int{i}
		}
		c.Jobs = append(c.Jobs, j)
	}
	if gspec.U(t, 4, "sharedopts") == 0 {
		// all calls get one and the same option list (that of the first job)
		c.Aux = map[string]int{"shared": 1}
	}
	return c
}

type jobResult struct {
	raw         any
	choices     string // Stats.ChoiceAltCnt, canonical (when the job collects statistics)
	value, errs string
	events      []vrt.Event
	panicked    bool
	start, end  time.Time
}

// noMemo: the grammar has predicates on the state store (never parsed with Memoize, see
// gspec.Grammar.HasStatePred).
var noMemo = map[string]bool{}

func runJob(pk PkgMeta, j *Job, safety uint64) *jobResult {
	reg := vrt.Lookup(pk.Name)
	ctx := vrt.NewCtx(j.Plan)
	req := &vrt.Request{Entry: j.Entry, Filename: j.Opts.Filename, Input: j.Input, Memoize: j.Opts.Memoize && !pk.Optimized && !noMemo[pk.Name], Stats: j.Opts.Stats && !pk.Optimized,
		Debug:   j.Opts.Debug && !pk.Optimized, NoRecover: j.Opts.NoRecover,
		MaxExpr: safety, InitState: initStateOf(j.Opts), Ctx: ctx, ViaReader: j.ViaReader, AllowInvalid: j.Opts.AllowInvalid}
	if j.Opts.MaxExpr > 0 {
		req.MaxExpr = j.Opts.MaxExpr
	}
	if len(j.Opts.InitInts) > 0 && !pk.HasInitState {
		req.InitState = nil
	}
	r := &jobResult{start: time.Now()}
	resp := reg.Run(req)
	r.end = time.Now()
	r.raw, r.errs, r.events, r.panicked = resp.Value, resp.ErrText, ctx.Events, resp.Panicked
	if resp.HasStats {
		r.choices = resp.ChoiceCnt
	}
	return r
}

// runShared runs the jobs' inputs with the option list of the first job, shared by all calls.
func runShared(pk PkgMeta, c *Case, safety uint64, concurrent bool) []*jobResult {
	reg := vrt.Lookup(pk.Name)
	j0 := &c.Jobs[0]
	reqs := make([]*vrt.Request, len(c.Jobs))
	for i := range c.Jobs {
		reqs[i] = &vrt.Request{Entry: j0.Entry, Filename: c.Jobs[i].Opts.Filename, Input: c.Jobs[i].Input, Memoize: j0.Opts.Memoize && !pk.Optimized && !noMemo[pk.Name], MaxExpr: safety, AllowInvalid: j0.Opts.AllowInvalid}
	}
	start := time.Now()
	resps := reg.RunShared(reqs, concurrent)
	end := time.Now()
	out := make([]*jobResult, len(resps))
	for i, resp := range resps {
		out[i] = &jobResult{raw: resp.Value, errs: resp.ErrText, panicked: resp.Panicked, start: start, end: end}
	}
	return out
}

func sameJob(a, b *jobResult) string {
	if a.panicked != b.panicked {
		return "panic behaviour differs"
	}
	if a.value != b.value {
		return fmt.Sprintf("value alone %s, concurrent %s", trunc(a.value, 200), trunc(b.value, 200))
	}
	if a.errs != b.errs {
		return fmt.Sprintf("errors alone %q, concurrent %q", trunc(a.errs, 200), trunc(b.errs, 200))
	}
	if a.choices != b.choices {
		return fmt.Sprintf("Stats.ChoiceAltCnt alone %s, concurrent %s", trunc(a.choices, 300), trunc(b.choices, 300))
	}
	if len(a.events) != len(b.events) {
		return fmt.Sprintf("%d code-block events alone, %d concurrent", len(a.events), len(b.events))
	}
	for i := range a.events {
		if a.events[i] != b.events[i] {
			return fmt.Sprintf("event %d alone %s, concurrent %s", i, a.events[i], b.events[i])
		}
	}
	return ""
}

func checkC18(x *X, c *Case, strict bool) *Outcome {
	g := x.G.Spec
	o := &Outcome{}
	// the reference only bounds the work (safety net) and classifies the case
	var safety uint64 = 200000
	for i := range c.Jobs {
		j := &c.Jobs[i]
		jc := &Case{Entry: j.Entry, Input: j.Input, Opts: j.Opts, Plan: j.Plan}
		// (the reference only bounds the work here: a small step budget - a case of up to 32 jobs
		// whose reference runs each take seconds keeps one shard busy for minutes)
		ro := refOpts(jc)
		ro.StepBudget = 30000
		ref := refpeg.Eval(g, j.Input, ro)
		if ref.OverBudget {
			return &Outcome{Discard: true}
		}
		if j.Opts.Memoize && ref.Stats.ZeroWidthIters > 0 {
			return &Outcome{Discard: true}
		}
	}
	if g.HasState {
		o.Tags = append(o.Tags, "stateful")
	}
	for _, r := range g.Rules {
		if r.LR != nil {
			o.Tags = append(o.Tags, "left_recursive")
			break
		}
	}
	for _, pk := range livePkgs(x.G) {
		if g.HasStatePred() {
			noMemo[pk.Name] = true
		}
		beginCase(x.G.ID, pk.Name, c)
		if c.Aux["shared"] == 1 && vrt.Lookup(pk.Name).RunShared != nil {
			old := runtime.GOMAXPROCS(c.Procs)
			conc := runShared(pk, c, safety, true)
			runtime.GOMAXPROCS(old)
			alone := runShared(pk, c, safety, false)
			endCase()
			o.Evals += 2 * len(c.Jobs)
			for i := range conc {
				alone[i].value, conc[i].value = vrt.Canon(alone[i].raw), vrt.Canon(conc[i].raw)
				if d := sameJob(alone[i], conc[i]); d != "" {
					o.Viol = viol(pk, c, "concurrent_differs", fmt.Sprintf("call %d of %d sharing one option list (GOMAXPROCS=%d): %s", i, len(c.Jobs), c.Procs, d), "", "")
					return o
				}
			}
			o.Nontrivial = o.Nontrivial || len(c.Jobs) >= 2
			o.Tags = append(o.Tags, "shared_option_list")
			continue
		}
		old := runtime.GOMAXPROCS(c.Procs)
		conc := make([]*jobResult, len(c.Jobs))
		var wg sync.WaitGroup
		startGate := make(chan struct{})
		for i := range c.Jobs {
			wg.Add(1)
			go func(i int) {
				defer wg.Done()
				<-startGate
				conc[i] = runJob(pk, &c.Jobs[i], safety)
			}(i)
		}
		close(startGate)
		wg.Wait()
		runtime.GOMAXPROCS(old)
		// the runs "alone" come second: the first concurrent calls of a process must not find
		// anything warmed up by an earlier sequential call (tables built lazily on first use in
		// the shared grammar would be built before the goroutines start)
		alone := make([]*jobResult, len(c.Jobs))
		for i := range c.Jobs {
			alone[i] = runJob(pk, &c.Jobs[i], safety)
			// a value is looked at right after its own call here, and only after every other call
			// has returned in the concurrent phase: a result must not point into memory that a
			// later call reuses
			alone[i].value = vrt.Canon(alone[i].raw)
		}
		for i := range conc {
			conc[i].value = vrt.Canon(conc[i].raw)
		}
		endCase()
		o.Evals += 2 * len(c.Jobs)
		overlap := false
		for i := range conc {
			for k := i + 1; k < len(conc); k++ {
				if conc[i].start.Before(conc[k].end) && conc[k].start.Before(conc[i].end) {
					overlap = true
				}
			}
			if d := sameJob(alone[i], conc[i]); d != "" {
				o.Viol = viol(pk, c, "concurrent_differs", fmt.Sprintf("job %d of %d (GOMAXPROCS=%d): %s", i, len(c.Jobs), c.Procs, d), "", "")
				return o
			}
		}
		if overlap {
			o.Nontrivial = true
			o.Tags = append(o.Tags, "overlapped")
		}
	}
	o.Tags = append(o.Tags, fmt.Sprintf("procs_%d", c.Procs))
	o.Observe = fmt.Sprintf("%d jobs, GOMAXPROCS=%d", len(c.Jobs), c.Procs)
	return o
}
