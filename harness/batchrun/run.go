package batchrun

import (
	"encoding/json"
	"flag"
	"fmt"
	"os"
	"path/filepath"
	"runtime/debug"
	"strconv"
	"strings"
	"sync"
	"sync/atomic"
	"testing"
	"time"

	"pgregory.net/rapid"

	"verif/harness/gspec"
	"verif/harness/refpeg"
	"verif/harness/vrt"
)

// Outcome of checking one case.
type Outcome struct {
	Viol       *Violation
	Discard    bool   // reference evaluation too expensive
	Excluded   string // known finding the case falls into (not compared)
	Tolerated  []string
	Nontrivial bool
	Tags       []string
	Evals      int
	Observe    string
}

// X is the context of a check.
type X struct {
	G    *Group
	Meta *Meta
	KF   map[string]bool
	Acc  *Acc
}

// Prop is a property check of Engine B.
type Prop struct {
	ID    string
	Draw  func(t *rapid.T, x *X) *Case
	Check func(x *X, c *Case, strict bool) *Outcome
}

var props = map[string]*Prop{}

func register(p *Prop) { props[p.ID] = p }

// ---------------------------------------------------------------------------------

type tbStop struct{}

// quietTB satisfies rapid.TB outside the testing framework.
type quietTB struct {
	name   string
	failed bool
	msgs   []string
}

func (q *quietTB) Helper()                  {}
func (q *quietTB) Name() string             { return q.name }
func (q *quietTB) Logf(f string, a ...any)  {}
func (q *quietTB) Log(a ...any)             {}
func (q *quietTB) Skipf(f string, a ...any) { panic(tbStop{}) }
func (q *quietTB) Skip(a ...any)            { panic(tbStop{}) }
func (q *quietTB) SkipNow()                 { panic(tbStop{}) }
func (q *quietTB) Errorf(f string, a ...any) {
	q.failed = true
	q.msgs = append(q.msgs, fmt.Sprintf(f, a...))
}
func (q *quietTB) Error(a ...any)            { q.failed = true; q.msgs = append(q.msgs, fmt.Sprint(a...)) }
func (q *quietTB) Fatalf(f string, a ...any) { q.Errorf(f, a...); panic(tbStop{}) }
func (q *quietTB) Fatal(a ...any)            { q.Error(a...); panic(tbStop{}) }
func (q *quietTB) FailNow()                  { q.failed = true; panic(tbStop{}) }
func (q *quietTB) Fail()                     { q.failed = true }
func (q *quietTB) Failed() bool              { return q.failed }

// ---------------------------------------------------------------------------------
// watchdog: a single Parse call that does not return within the limit aborts the binary
// after the current case was written out.

var (
	curMu     sync.Mutex
	curStart  atomic.Int64
	curFile   *os.File
	hangLimit = 20 * time.Second
)

type currentCase struct {
	Group int    `json:"group"`
	Pkg   string `json:"pkg"`
	Case  *Case  `json:"case"`
}

func beginCase(group int, pkg string, c *Case) {
	if curFile != nil {
		b, _ := json.Marshal(currentCase{group, pkg, c})
		b = append(b, '\n')
		curMu.Lock()
		curFile.Truncate(0)
		curFile.WriteAt(b, 0)
		curMu.Unlock()
	}
	curStart.Store(time.Now().UnixNano())
}

func endCase() { curStart.Store(0) }

func watchdog(exitFile string) {
	for {
		time.Sleep(500 * time.Millisecond)
		s := curStart.Load()
		if s != 0 && time.Since(time.Unix(0, s)) > hangLimit {
			os.WriteFile(exitFile, []byte("hang\n"), 0o644)
			os.Exit(3)
		}
	}
}

// ---------------------------------------------------------------------------------

func loadMeta(dir string) (*Meta, error) {
	b, err := os.ReadFile(filepath.Join(dir, "meta.json"))
	if err != nil {
		return nil, err
	}
	var m Meta
	if err := json.Unmarshal(b, &m); err != nil {
		return nil, err
	}
	for _, g := range m.Groups {
		sb, err := os.ReadFile(filepath.Join(dir, g.SpecFile))
		if err != nil {
			return nil, err
		}
		g.Spec, err = gspec.FromJSON(sb)
		if err != nil {
			return nil, fmt.Errorf("%s: %v", g.SpecFile, err)
		}
	}
	return &m, nil
}

// Main is the entry point of every batch binary.
func Main() {
	testing.Init()
	dir := flag.String("dir", ".", "work directory containing meta.json")
	shard := flag.Int("shard", 0, "shard index")
	shards := flag.Int("shards", 1, "number of shards")
	out := flag.String("out", "", "summary file")
	replay := flag.Bool("replay", false, "only run the witness/replay groups (tolerance off)")
	witness := flag.Int("witness", -1, "run only this witness/replay group (tolerance off)")
	tolerant := flag.Bool("tolerant", false, "keep the known-finding tolerance on for witness groups")
	shrinkTime := flag.Duration("shrinktime", 8*time.Second, "rapid shrink time")
	flag.DurationVar(&hangLimit, "hanglimit", 20*time.Second, "a single Parse call that takes longer aborts the binary")
	flag.Parse()
	debug.SetMaxStack(256 << 20)

	meta, err := loadMeta(*dir)
	if err != nil {
		fmt.Fprintln(os.Stderr, "batchrun: ", err)
		os.Exit(2)
	}
	p := props[meta.Property]
	if p == nil {
		fmt.Fprintln(os.Stderr, "batchrun: no check for property", meta.Property)
		os.Exit(2)
	}
	// Debug(true) prints to stdout: silence it.
	if devnull, err := os.OpenFile(os.DevNull, os.O_WRONLY, 0); err == nil {
		os.Stdout = devnull
	}
	if *out == "" {
		*out = filepath.Join(*dir, fmt.Sprintf("summary-%d.json", *shard))
	}
	curFile, _ = os.Create(*out + ".current")
	go watchdog(*out + ".exit")

	kf := map[string]bool{}
	for _, k := range meta.KF {
		kf[k] = true
	}
	acc := newAcc(*shard)
	flag.Set("rapid.nofailfile", "true")
	flag.Set("rapid.shrinktime", shrinkTime.String())

	for gi, g := range meta.Groups {
		if *witness >= 0 {
			if gi != *witness {
				continue
			}
		} else if len(g.Case) > 0 || gi%*shards != *shard {
			continue
		}
		x := &X{G: g, Meta: meta, KF: kf, Acc: acc}
		if len(g.Case) > 0 {
			// witness or saved replay: run exactly this case with the tolerance off
			var c Case
			if err := json.Unmarshal(g.Case, &c); err != nil {
				acc.Notes = append(acc.Notes, "bad case in "+g.Witness+": "+err.Error())
				continue
			}
			acc.WitnessRuns = append(acc.WitnessRuns, g.Witness)
			o := p.Check(x, &c, !*tolerant)
			if o.Viol != nil {
				acc.WitnessFails = append(acc.WitnessFails, g.Witness)
				if acc.WitnessKinds == nil {
					acc.WitnessKinds = map[string]string{}
				}
				acc.WitnessKinds[g.Witness] = o.Viol.Kind
				o.Viol.Witness = g.Witness
				o.Viol.Group = g.ID
				acc.Notes = append(acc.Notes, fmt.Sprintf("witness %s: %s: %s", g.Witness, o.Viol.Kind, o.Viol.Diff))
			}
			continue
		}
		if *replay {
			continue
		}
		runGroup(p, x, meta, gi)
		acc.GroupsRun++
	}
	endCase()
	writeSummary(*out, acc)
}

func writeSummary(path string, acc *Acc) {
	b, _ := json.MarshalIndent(&acc.Summary, "", " ")
	tmp := path + ".tmp"
	os.WriteFile(tmp, b, 0o644)
	os.Rename(tmp, path)
}

func runGroup(p *Prop, x *X, meta *Meta, gi int) {
	live := false
	for _, pk := range x.G.Pkgs {
		if !pk.Refused && !pk.CompileFail {
			live = true
		}
	}
	if !live && p.ID != "C04" && p.ID != "C07" {
		x.Acc.Tags["group_without_parser"]++
		return
	}
	seed := meta.Seed*1000003 + uint64(gi)*7919 + 1
	flag.Set("rapid.seed", fmt.Sprint(seed))
	flag.Set("rapid.checks", fmt.Sprint(meta.Cases))
	tb := &quietTB{name: fmt.Sprintf("%s/g%d", p.ID, x.G.ID)}
	var last *Violation
	failedOnce := false
	prop := func(t *rapid.T) {
		c := p.Draw(t, x)
		o := p.Check(x, c, false)
		if !failedOnce {
			account(x, c, o)
		}
		if o.Viol != nil {
			failedOnce = true
			last = o.Viol
			last.Group = x.G.ID
			t.Fatalf("%s: %s", o.Viol.Kind, o.Viol.Diff)
		}
	}
	func() {
		defer func() {
			if r := recover(); r != nil {
				if _, ok := r.(tbStop); !ok {
					panic(r)
				}
			}
		}()
		rapid.Check(tb, prop)
	}()
	if tb.failed {
		if last != nil {
			last.Spec = x.G.Spec.ToJSON()
			x.Acc.Violations = append(x.Acc.Violations, last)
		} else {
			x.Acc.Notes = append(x.Acc.Notes, "rapid failure without violation: "+strings.Join(tb.msgs, " | "))
		}
	}
}

func account(x *X, c *Case, o *Outcome) {
	a := x.Acc
	if o.Discard {
		a.Discarded++
		return
	}
	if o.Excluded != "" {
		a.Excluded[o.Excluded]++
		return
	}
	for _, t := range o.Tolerated {
		a.Excluded["tolerated:"+t]++
	}
	a.Evaluations += o.Evals
	a.note(x.G.ID, c, o.Nontrivial, o.Tags)
	if o.Nontrivial && len(a.Samples) < 4 && (a.Cases%7 == 1 || len(a.Samples) == 0) {
		flags := []string{}
		if len(x.G.Pkgs) > 0 {
			flags = x.G.Pkgs[0].Flags
		}
		a.Samples = append(a.Samples, Sample{Grammar: gspec.Print(x.G.Spec, gspec.PrintOpts{StubCode: true, NoInit: true}),
			Flags: flags, Entry: c.Entry, Input: string(c.Input), Opts: c.Opts, Tags: o.Tags, Observe: o.Observe})
	}
}

// ---------------------------------------------------------------------------------
// helpers shared by the property checks

// livePkgs returns the packages of the group that exist in the binary.
func livePkgs(g *Group) []PkgMeta {
	var out []PkgMeta
	for _, p := range g.Pkgs {
		if !p.Refused && !p.CompileFail && vrt.Lookup(p.Name) != nil {
			out = append(out, p)
		}
	}
	return out
}

func initStateOf(o CaseOpts) map[string]any {
	if len(o.InitInts) == 0 && !o.HasInitList {
		return nil
	}
	m := map[string]any{}
	for k, v := range o.InitInts {
		m[k] = v
	}
	if o.HasInitList {
		m["l"] = &vrt.CList{Items: append([]int{}, o.InitList...)}
	}
	return m
}

func globalsOf(o CaseOpts) map[string]any {
	if len(o.Globals) == 0 {
		return nil
	}
	m := map[string]any{}
	for k, v := range o.Globals {
		m[k] = v
	}
	return m
}

// refOpts builds the reference options of a case.
func refOpts(c *Case) refpeg.Options {
	entry := c.Entry
	if entry == EntryEmptyOption {
		entry = ""
	}
	return refpeg.Options{Entry: entry, Filename: c.Opts.Filename, AllowInvalid: c.Opts.AllowInvalid,
		NoRecover: c.Opts.NoRecover, MaxExpr: c.Opts.MaxExpr, InitState: initStateOf(c.Opts), Globals: globalsOf(c.Opts), Plan: c.Plan}
}

// runReal executes the case on a generated package. safety > 0 installs a MaxExpressions
// safety net when the case itself has no budget.
func runReal(x *X, pk PkgMeta, c *Case, safety uint64) (*vrt.Response, *vrt.Ctx) {
	reg := vrt.Lookup(pk.Name)
	ctx := vrt.NewCtx(c.Plan)
	req := &vrt.Request{Entry: c.Entry, Filename: c.Opts.Filename, Input: c.Input, Memoize: c.Opts.Memoize, Debug: c.Opts.Debug,
		Stats: c.Opts.Stats, MaxExpr: c.Opts.MaxExpr, AllowInvalid: c.Opts.AllowInvalid, NoRecover: c.Opts.NoRecover,
		InitState: initStateOf(c.Opts), Globals: globalsOf(c.Opts), Ctx: ctx, WarmStats: c.Opts.WarmStats && c.Opts.Stats,
		ViaReader: c.Opts.Via == "reader", ViaFile: c.Opts.Via == "file", DupOpts: c.Opts.DupOpts, OptOrder: c.Opts.OptOrder, PoisonBefore: c.Opts.PoisonBefore, CallAfter: c.Opts.CallAfter,
		MemoExtraOK: !x.G.Spec.HasState && x.G.Spec.Profile != "diverging" && x.G.Spec.Profile != "leftrec"}
	if req.Memoize && x.G.Spec.HasStatePred() {
		req.Memoize = false // (see Grammar.HasStatePred)
	}
	if req.MaxExpr == 0 && safety > 0 {
		req.MaxExpr = safety
	}
	beginCase(x.G.ID, pk.Name, c)
	resp := reg.Run(req)
	endCase()
	return resp, ctx
}

func errMsgs(r *vrt.Response) []string {
	out := make([]string, len(r.Errs))
	for i, e := range r.Errs {
		out[i] = e.Msg
	}
	return out
}

func viol(pk PkgMeta, c *Case, kind, diff, expect, actual string) *Violation {
	cc := *c
	cc.InputText = strconv.Quote(string(c.Input))
	c = &cc
	return &Violation{Pkg: pk.Name, Variant: pk.Variant, Kind: kind, Diff: diff, Case: c, Expect: expect, Actual: actual}
}

func trunc(s string, n int) string {
	if len(s) <= n {
		return s
	}
	return s[:n] + "…"
}
