// Package refpeg is the reference interpreter: a direct recursive evaluator of gspec
// grammars written from the PEG definition and pigeon's documentation. It shares no
// code with pigeon and is the oracle of all runtime properties.
package refpeg

import (
	"fmt"
	"sort"
	"strconv"
	"strings"
	"unicode"
	"unicode/utf8"

	"verif/harness/gspec"
	"verif/harness/vrt"
)

// Options of one reference evaluation (mirrors the options of a generated parser).
type Options struct {
	Entry        string // "" = first rule
	Filename     string
	AllowInvalid bool
	NoRecover    bool
	MaxExpr      uint64 // 0 = unbounded
	InitState    map[string]any
	Globals      map[string]any
	Plan         *vrt.Plan
	// StepBudget bounds the reference evaluation itself (0 = 200000); exceeding it makes the
	// case "too expensive": it is discarded, never reported.
	StepBudget int
}

// ErrRec is one expected element of the error list.
type ErrRec struct {
	Msg      string // full text: [file:]line:col (off)[: rule NAME]: inner
	AltMsg   string // same with the display name unquoted (both spellings are accepted)
	InnerMsg string
	Off      int
	Rule     string // rule name (display name when given), "" for none
	Injected bool   // produced by a fault of the plan (Inner must be the injected value)
	Kind     string // code | encoding | panic | maxexpr | nomatch | entry
}

// Pos is pigeon's position convention for an offset.
type Pos struct{ Line, Col, Off int }

// Stats are the oracle's own accounting, used for the non-triviality rules.
type Stats struct {
	Steps            int // expression evaluations (one per node evaluation)
	TerminalAttempts int
	Backtracks       int // failures of a sequence after it consumed input
	PredEvals        int // & ! evaluated
	CodePredEvals    int
	Actions          int
	StateBlocks      int
	ZeroWidthIters   int // repetition iterations that succeeded without consuming
	Rollbacks        int // failures/predicates that reverted a non-empty state delta
	RollbackKinds    map[string]int
	ReentrySame      bool // a rule was re-entered at an offset at which it is already active
	ReentryRule      string
	MaxDepth         int
	AdvancedInvalid  []int // invalid-byte offsets the parse advanced onto (sorted, unique)
	Throws           int
	ThrowsHandled    int
	ThrowFallthrough int // a handler failed and an outer one was tried
	ThrowNoHandler   int
	LRGrowth         int // growth iterations of left-recursive rules
	LRCalls          map[string]int
	EventsAfterNL    int // code-block events at an offset behind a newline or multi-byte rune
	MultiByte        bool
	FaultsFired      int
	FaultAbandoned   bool
	MemoSensitive    bool // some (node, offset) was evaluated more than once
	ICUnsafe         int  // ignore-case class decisions on which pigeon's lowering differs from the definition (D12)
	FFFDAtEOF        int  // literal containing U+FFFD attempted at end of input
	StaleCtxEvents   int
	DistinctEvals    int // distinct (expression node, offset) pairs evaluated
	CodeReevalDiff   int // a code block evaluated again at the same offset with different label values
	LabelReeval      int // a labelled expression evaluated again at an offset where it was evaluated before
	// LRDroppedErrs counts, by message, the errors that an invocation of a left-recursive rule
	// dropped (final non-extending growth attempt, invocation failing outright).
	LRDroppedErrs map[string]int
	// LRHandlerSwitch: a left-recursive rule was invoked again at an offset under another stack
	// of recovery handlers than before, and an invocation evaluated a throw; LRInvertSwitch:
	// invoked again at an offset inside another parity of ! nesting than before. In both cases
	// a result remembered from the earlier invocation is not what the definition gives
	// (recorded finding KF-C14-LRMEMO / KF-C12-LRMEMO).
	LRHandlerSwitch int
	LRInvertSwitch  int
}

// Result of a reference evaluation.
type Result struct {
	Ok     bool
	End    int
	Value  any
	Events []vrt.Event
	// Stale[i] is the (text,pos) pigeon's known defect D1 shows to predicate/state event i
	// (the context of the most recent action), "" when the event is an action.
	Stale       []StaleCtx
	Errs        []ErrRec // after de-duplication, in order
	ErrText     string
	Panicked    bool // a panic escaped (NoRecover)
	PanicVal    any
	FinalState  string
	FinalGlobal string
	FailOff     int
	FailWants   []string
	Stats       Stats
	OverBudget  bool
	BadEntry    bool
}

// StaleCtx is the context of the most recent action invocation.
type StaleCtx struct {
	Set            bool
	Text           string
	Line, Col, Off int
}

type panicSignal struct {
	val     any // *vrt.InjectedError, string or maxExprSignal
	off     int
	rule    string
	maxexpr bool
}

type budgetSignal struct{}

type handler struct {
	labels []string
	rec    *gspec.Expr
}

type interp struct {
	g     *gspec.Grammar
	in    []byte
	opt   Options
	pos   map[int]Pos
	valid map[int]bool // offset starts an invalid byte

	state  map[string]any
	global map[string]any
	events []vrt.Event
	stale  []StaleCtx
	last   StaleCtx
	errs   []ErrRec
	counts map[int]int

	rstack    []*gspec.Rule
	active    map[string]map[int]int // rule -> offset -> activation count
	handlers  []handler
	invert    bool
	failOff   int
	failSet   map[string]bool
	budget    int
	seen      map[[2]int]bool
	labelSeen map[[2]int]bool
	codeSeen  map[[2]int]string
	adv       map[int]bool
	depth     int

	nEvents int

	// left recursion by denotation
	lrSeed map[string]*lrSeed
	lrCtx  map[string]*lrCtx // rule@offset -> context of the earlier invocations

	st Stats
}

type lrCtx struct {
	handlers string
	invert   bool
	threw    bool
}

type lrSeed struct {
	start int
	val   any
	end   int
}

// Positions computes pigeon's (line, col) for every rune start offset and for len(in).
func Positions(in []byte) (map[int]Pos, map[int]bool) {
	pos := make(map[int]Pos, len(in)+1)
	invalid := map[int]bool{}
	line, col := 1, 0
	o := 0
	for {
		rn, w := utf8.DecodeRune(in[o:])
		col++
		if rn == '\n' {
			line++
			col = 0
		}
		pos[o] = Pos{line, col, o}
		if w == 0 {
			break
		}
		if rn == utf8.RuneError && w == 1 {
			invalid[o] = true
		}
		o += w
	}
	return pos, invalid
}

// Eval runs the reference interpreter.
func Eval(g *gspec.Grammar, input []byte, opt Options) (res *Result) {
	it := &interp{g: g, in: input, opt: opt, state: map[string]any{}, global: map[string]any{},
		counts: map[int]int{}, active: map[string]map[int]int{}, failSet: map[string]bool{},
		seen: map[[2]int]bool{}, adv: map[int]bool{}, lrSeed: map[string]*lrSeed{}}
	it.pos, it.valid = Positions(input)
	it.budget = opt.StepBudget
	if it.budget == 0 {
		// (long inputs - big rules, the Loop entry - get a budget that grows with them)
		it.budget = 200000 + 400*len(input)
	}
	it.st.RollbackKinds = map[string]int{}
	it.st.LRCalls = map[string]int{}
	for k, v := range opt.InitState {
		it.state[k] = cloneVal(v)
	}
	for k, v := range opt.Globals {
		it.global[k] = v
	}
	res = &Result{}

	entry := opt.Entry
	var start *gspec.Rule
	if entry == "" {
		start = g.Rules[0]
	} else {
		start = g.Rule(entry)
	}
	if start == nil {
		res.BadEntry = true
		it.addErr("invalid entrypoint", Pos{1, 0, 0}, "", false, "entry")
		it.finish(res, false, 0, nil)
		return res
	}

	defer func() {
		if r := recover(); r != nil {
			switch sig := r.(type) {
			case budgetSignal:
				res.OverBudget = true
				res.Stats = it.st
			case panicSignal:
				if opt.NoRecover {
					res.Panicked = true
					res.PanicVal = sig.val
					if sig.maxexpr {
						res.PanicVal = "max number of expressions parsed"
					}
					it.finish(res, false, sig.off, nil)
					return
				}
				msg := ""
				kind := "panic"
				inj := false
				switch v := sig.val.(type) {
				case *vrt.InjectedError:
					msg = v.Msg
					inj = true
				case string:
					msg = v
				default:
					// documented for any other value: its default formatting
					msg = fmt.Sprintf("%v", v)
				}
				if sig.maxexpr {
					msg = "max number of expressions parsed"
					kind = "maxexpr"
				}
				it.addErr(msg, it.pos[sig.off], sig.rule, inj, kind)
				it.finish(res, false, sig.off, nil)
			default:
				panic(r)
			}
		}
	}()

	it.advance(0)
	v, end, ok := it.rule(start, 0)
	if !ok && len(it.errs) == 0 {
		wants := it.wants()
		it.addErr("no match found, expected: "+listJoin(wants), it.failPos(), "", false, "nomatch")
	}
	it.finish(res, ok, end, v)
	return res
}

// failPos: the farthest failure offset (0 when no terminal failed at all) with that
// offset's line and column.
func (it *interp) failPos() Pos {
	return it.pos[it.failOff]
}

func (it *interp) wants() []string {
	eof := false
	out := []string{}
	for w := range it.failSet {
		if w == "!." {
			eof = true
			continue
		}
		out = append(out, w)
	}
	sort.Strings(out)
	if eof {
		out = append(out, "EOF")
	}
	return out
}

func listJoin(l []string) string {
	switch len(l) {
	case 0:
		return ""
	case 1:
		return l[0]
	}
	return strings.Join(l[:len(l)-1], ", ") + " or " + l[len(l)-1]
}

func (it *interp) finish(res *Result, ok bool, end int, v any) {
	res.Ok = ok
	res.End = end
	if ok {
		res.Value = v
	}
	res.Events = it.events
	res.Stale = it.stale
	// de-duplicate by full message, keeping first occurrences
	seen := map[string]bool{}
	for _, e := range it.errs {
		if !seen[e.Msg] {
			seen[e.Msg] = true
			res.Errs = append(res.Errs, e)
		}
	}
	msgs := make([]string, len(res.Errs))
	for i, e := range res.Errs {
		msgs[i] = e.Msg
	}
	res.ErrText = strings.Join(msgs, "\n")
	res.FinalState = vrt.StateSnapshot(it.state)
	res.FinalGlobal = vrt.GlobalSnapshot(it.global)
	res.FailOff = it.failOff
	res.FailWants = it.wants()
	for o := range it.adv {
		it.st.AdvancedInvalid = append(it.st.AdvancedInvalid, o)
	}
	sort.Ints(it.st.AdvancedInvalid)
	it.st.DistinctEvals = len(it.seen)
	res.Stats = it.st
}

// curRuleName is the rule shown in error prefixes: the innermost dynamically enclosing
// rule, by display name when it has one. The display name is shown as spelled in the
// grammar (quoted); the unquoted form is accepted as well (AltMsg).
func (it *interp) curRuleName() string {
	if len(it.rstack) == 0 {
		return ""
	}
	r := it.rstack[len(it.rstack)-1]
	if r.Display != "" {
		return "\x00" + r.Display
	}
	return r.Name
}

func (it *interp) addErr(inner string, p Pos, rule string, injected bool, kind string) {
	var b strings.Builder
	if it.opt.Filename != "" {
		b.WriteString(it.opt.Filename + ":")
	}
	fmt.Fprintf(&b, "%d:%d (%d)", p.Line, p.Col, p.Off)
	alt := b.String()
	if strings.HasPrefix(rule, "\x00") {
		d := rule[1:]
		b.WriteString(": rule " + strconv.Quote(d))
		alt += ": rule " + d
		rule = d
	} else if rule != "" {
		b.WriteString(": rule " + rule)
		alt = b.String()
	}
	it.errs = append(it.errs, ErrRec{Msg: b.String() + ": " + inner, AltMsg: alt + ": " + inner, InnerMsg: inner, Off: p.Off, Rule: rule, Injected: injected, Kind: kind})
}

// advance models the parser moving onto offset o (reading the rune that starts there).
func (it *interp) advance(o int) {
	if it.valid[o] {
		it.adv[o] = true
		if !it.opt.AllowInvalid {
			it.addErr("invalid encoding", it.pos[o], it.curRuleName(), false, "encoding")
		}
	}
}

func (it *interp) step(e *gspec.Expr, off int) {
	it.st.Steps++
	if it.opt.MaxExpr > 0 && uint64(it.st.Steps) > it.opt.MaxExpr {
		panic(panicSignal{off: off, rule: it.curRuleName(), maxexpr: true})
	}
	if it.st.Steps > it.budget {
		panic(budgetSignal{})
	}
	if e != nil {
		k := [2]int{e.NID, off}
		if it.seen[k] {
			it.st.MemoSensitive = true
		}
		it.seen[k] = true
	}
}

func cloneVal(v any) any {
	if l, ok := v.(*vrt.CList); ok {
		return l.Clone()
	}
	return v
}

func (it *interp) snapshot() map[string]any {
	m := make(map[string]any, len(it.state))
	for k, v := range it.state {
		m[k] = cloneVal(v)
	}
	return m
}

// restore puts a snapshot back; it reports whether the store actually differed.
func (it *interp) restoreState(snap map[string]any, kind string) {
	if vrt.StateSnapshot(snap) != vrt.StateSnapshot(it.state) {
		it.st.Rollbacks++
		it.st.RollbackKinds[kind]++
	}
	it.state = snap
}

func (it *interp) rule(r *gspec.Rule, off int) (any, int, bool) {
	m := it.active[r.Name]
	if m == nil {
		m = map[int]int{}
		it.active[r.Name] = m
	}
	if m[off] > 0 && r.LR == nil {
		it.st.ReentrySame = true
		it.st.ReentryRule = r.Name
		// unbounded recursion in a real parser; the reference stops here
		panic(budgetSignal{})
	}
	m[off]++
	it.depth++
	if it.depth > it.st.MaxDepth {
		it.st.MaxDepth = it.depth
	}
	if it.depth > 2000 {
		panic(budgetSignal{})
	}
	it.rstack = append(it.rstack, r)
	var (
		v   any
		end int
		ok  bool
	)
	if r.LR != nil {
		v, end, ok = it.lrRule(r, off)
	} else {
		env := map[string]any{}
		v, end, ok = it.eval(r.Expr, off, env)
	}
	it.rstack = it.rstack[:len(it.rstack)-1]
	it.depth--
	m[off]--
	return v, end, ok
}

// inLRRule reports whether the named rule is left-recursive (an LR rule or the
// intermediate rule of an indirect cycle).
func (it *interp) inLRRule(name string) bool {
	for _, r := range it.g.Rules {
		if r.LR != nil && (r.Name == name || r.LR.Via == name) {
			return true
		}
	}
	return false
}

// lrRule evaluates A <- A t1 / ... / A tn / b1 / ... / bm by its denotation: ordered
// choice of the bases, then a greedy loop of the ordered choice of the tails with the
// recursive reference bound to the result so far.
func (it *interp) dropErrs(mark int) {
	for _, e := range it.errs[mark:] {
		if it.st.LRDroppedErrs == nil {
			it.st.LRDroppedErrs = map[string]int{}
		}
		it.st.LRDroppedErrs[e.Msg]++
	}
	it.errs = it.errs[:mark]
}

func (it *interp) lrRule(r *gspec.Rule, off int) (any, int, bool) {
	if s := it.lrSeed[r.Name]; s != nil && s.start == off {
		// the recursive reference at the start offset: the result so far
		if s.end < 0 {
			return nil, off, false
		}
		return s.val, s.end, true
	}
	key := r.Name + "@" + strconv.Itoa(off)
	it.st.LRCalls[key]++
	saved := it.lrSeed[r.Name]
	defer func() { it.lrSeed[r.Name] = saved }()
	{
		// the context of this invocation against the context of the earlier ones at this offset
		var sig strings.Builder
		for _, h := range it.handlers {
			fmt.Fprintf(&sig, "%p%v;", h.rec, h.labels)
		}
		throws0 := it.st.Throws
		prev := it.lrCtx[key]
		if it.lrCtx == nil {
			it.lrCtx = map[string]*lrCtx{}
		}
		cur := &lrCtx{handlers: sig.String(), invert: it.invert}
		if prev == nil {
			it.lrCtx[key] = cur
		}
		defer func() {
			cur.threw = it.st.Throws > throws0
			if prev != nil {
				if prev.handlers != cur.handlers && (prev.threw || cur.threw) {
					it.st.LRHandlerSwitch++
				}
				if prev.invert != cur.invert {
					it.st.LRInvertSwitch++
				}
				prev.threw = prev.threw || cur.threw
			}
		}()
	}

	alts := r.Expr.Sub

	// bases (the recursive reference fails: seed = failure)
	errEntry := len(it.errs)
	stEntry := it.snapshot()
	it.lrSeed[r.Name] = &lrSeed{start: off, end: -1}
	var (
		val any
		end int
		ok  bool
	)
	it.st.Steps++ // body choice
	for _, i := range append(append([]int{}, r.LR.Tails...), r.LR.Bases...) {
		snap := it.snapshot()
		env := map[string]any{}
		v, e, k := it.eval(alts[i], off, env)
		if k {
			val, end, ok = v, e, true
			break
		}
		it.restoreState(snap, "choice")
	}
	if !ok {
		// pinned by probe: an invocation that fails outright goes through the same exit as the
		// final non-extending attempt - the errors and state changes it produced are dropped
		it.dropErrs(errEntry)
		it.state = stEntry
		return nil, off, false
	}
	for {
		it.lrSeed[r.Name] = &lrSeed{start: off, val: val, end: end}
		errMark := len(it.errs)
		stMark := it.snapshot()
		grown := false
		it.st.Steps++ // body choice
		for _, i := range append(append([]int{}, r.LR.Tails...), r.LR.Bases...) {
			snap := it.snapshot()
			env := map[string]any{}
			v, e, k := it.eval(alts[i], off, env)
			if k {
				if e > end {
					val, end = v, e
					grown = true
				}
				break
			}
			it.restoreState(snap, "choice")
		}
		if !grown {
			// the final, non-extending attempt leaves no errors and no state behind
			it.dropErrs(errMark)
			it.state = stMark
			break
		}
		it.st.LRGrowth++
	}
	return val, end, true
}

func (it *interp) eval(e *gspec.Expr, off int, env map[string]any) (any, int, bool) {
	it.step(e, off)
	switch e.K {
	case gspec.KLit:
		return it.lit(e, off)
	case gspec.KClass:
		return it.class(e, off)
	case gspec.KAny:
		it.st.TerminalAttempts++
		if off >= len(it.in) {
			it.fail(false, off, ".")
			return nil, off, false
		}
		_, w := utf8.DecodeRune(it.in[off:])
		it.advance(off + w)
		it.fail(true, off, ".")
		return it.in[off : off+w : off+w], off + w, true
	case gspec.KRef:
		r := it.g.Rule(e.Name)
		if r == nil {
			it.addErr("undefined rule: "+e.Name, it.pos[off], it.curRuleName(), false, "code")
			return nil, off, false
		}
		return it.rule(r, off)
	case gspec.KSeq:
		snap := it.snapshot()
		vals := make([]any, 0, len(e.Sub))
		cur := off
		for _, s := range e.Sub {
			v, end, ok := it.eval(s, cur, env)
			if !ok {
				if cur > off {
					it.st.Backtracks++
				}
				it.restoreState(snap, "seq")
				return nil, off, false
			}
			vals = append(vals, v)
			cur = end
		}
		return vals, cur, true
	case gspec.KChoice:
		for _, a := range e.Sub {
			snap := it.snapshot()
			v, end, ok := it.eval(a, off, map[string]any{})
			if ok {
				return v, end, true
			}
			it.restoreState(snap, "choice")
		}
		return nil, off, false
	case gspec.KOpt:
		v, end, ok := it.eval(e.Sub[0], off, map[string]any{})
		if !ok {
			return nil, off, true
		}
		return v, end, true
	case gspec.KStar, gspec.KPlus:
		vals := []any{}
		cur := off
		for {
			v, end, ok := it.eval(e.Sub[0], cur, map[string]any{})
			if !ok {
				break
			}
			if end == cur {
				it.st.ZeroWidthIters++
				if it.st.ZeroWidthIters > 1000 && it.opt.MaxExpr == 0 {
					// a diverging repetition: only MaxExpressions ends it
					panic(budgetSignal{})
				}
			}
			vals = append(vals, v)
			cur = end
		}
		if e.K == gspec.KPlus && len(vals) == 0 {
			return nil, off, false
		}
		return vals, cur, true
	case gspec.KAnd, gspec.KNot:
		it.st.PredEvals++
		snap := it.snapshot()
		if e.K == gspec.KNot {
			it.invert = !it.invert
		}
		_, _, ok := it.eval(e.Sub[0], off, map[string]any{})
		if e.K == gspec.KNot {
			it.invert = !it.invert
		}
		it.restoreState(snap, string(e.K))
		if e.K == gspec.KNot {
			ok = !ok
		}
		return nil, off, ok
	case gspec.KLabel:
		if it.labelSeen == nil {
			it.labelSeen = map[[2]int]bool{}
		}
		if it.labelSeen[[2]int{e.NID, off}] && !it.inLRRule(e.RuleOf) {
			// (inside left-recursive rules pigeon disables the expression memo, so the recorded
			// finding about memo hits on labelled expressions cannot occur there)
			it.st.LabelReeval++
		}
		it.labelSeen[[2]int{e.NID, off}] = true
		v, end, ok := it.eval(e.Sub[0], off, map[string]any{})
		if ok {
			env[e.Name] = v
		}
		return v, end, ok
	case gspec.KAction:
		v, end, ok := it.eval(e.Sub[0], off, env)
		if !ok {
			return v, off, false
		}
		return it.action(e, off, end, env), end, true
	case gspec.KAndCode, gspec.KNotCode:
		ans := it.codePred(e, off, env)
		if e.K == gspec.KNotCode {
			ans = !ans
		}
		return nil, off, ans
	case gspec.KState:
		it.stateBlock(e, off, env)
		return nil, off, true
	case gspec.KThrow:
		it.st.Throws++
		tried := 0
		for i := len(it.handlers) - 1; i >= 0; i-- {
			h := it.handlers[i]
			match := false
			for _, l := range h.labels {
				if l == e.Name {
					match = true
				}
			}
			if !match {
				continue
			}
			tried++
			if tried > 1 {
				it.st.ThrowFallthrough++
			}
			if v, end, ok := it.eval(h.rec, off, env); ok {
				it.st.ThrowsHandled++
				return v, end, true
			}
		}
		if tried == 0 {
			it.st.ThrowNoHandler++
		}
		return nil, off, false
	case gspec.KRecover:
		it.handlers = append(it.handlers, handler{e.Labels, e.Sub[1]})
		n := len(it.handlers)
		defer func() { it.handlers = it.handlers[:n-1] }()
		return it.eval(e.Sub[0], off, env)
	}
	panic("refpeg: unknown kind " + string(e.K))
}

// fail records a farthest-failure event: a terminal failed outside an odd number of !,
// or matched inside an odd number of !.
func (it *interp) fail(matched bool, off int, want string) {
	if matched != it.invert {
		return
	}
	if off < it.failOff {
		return
	}
	if off > it.failOff {
		it.failOff = off
		it.failSet = map[string]bool{}
	}
	if it.invert {
		want = "!" + want
	}
	it.failSet[want] = true
}

func (it *interp) lit(e *gspec.Expr, off int) (any, int, bool) {
	it.st.TerminalAttempts++
	want := gspec.LitWant(e)
	cur := off
	lit := e.Val
	for len(lit) > 0 {
		lr, lw := utf8.DecodeRune(lit)
		lit = lit[lw:]
		if cur >= len(it.in) {
			if lr == utf8.RuneError {
				it.st.FFFDAtEOF++
			}
			it.fail(false, off, want)
			return nil, off, false
		}
		ir, iw := utf8.DecodeRune(it.in[cur:])
		if e.IC {
			// both sides through unicode.ToLower (documented: "case-insensitive")
			if unicode.ToLower(ir) != unicode.ToLower(lr) {
				it.fail(false, off, want)
				return nil, off, false
			}
		} else if ir != lr {
			it.fail(false, off, want)
			return nil, off, false
		}
		cur += iw
		it.advance(cur)
		if iw > 1 {
			it.st.MultiByte = true
		}
	}
	it.fail(true, off, want)
	return it.in[off:cur:cur], cur, true
}

// foldSet returns the runes m with ToLower(m) == ToLower(r) (r's simple-fold orbit,
// filtered).
func foldSet(r rune) []rune {
	out := []rune{r}
	lr := unicode.ToLower(r)
	for m := unicode.SimpleFold(r); m != r; m = unicode.SimpleFold(m) {
		if unicode.ToLower(m) == lr {
			out = append(out, m)
		}
	}
	// ToLower/ToUpper images that simple folding does not connect
	for _, m := range []rune{lr, unicode.ToUpper(r), unicode.ToUpper(lr)} {
		if unicode.ToLower(m) == lr {
			dup := false
			for _, x := range out {
				if x == m {
					dup = true
				}
			}
			if !dup {
				out = append(out, m)
			}
		}
	}
	return out
}

// ClassMember is the definition of class membership (before inversion): some member m
// equals r, or - with the i flag - has ToLower(m) == ToLower(r).
func ClassMember(e *gspec.Expr, r rune) bool {
	cands := []rune{r}
	if e.IC {
		cands = foldSet(r)
	}
	for _, m := range cands {
		for _, c := range e.Chars {
			if c == m {
				return true
			}
		}
		for i := 0; i+1 < len(e.Ranges); i += 2 {
			if m >= e.Ranges[i] && m <= e.Ranges[i+1] {
				return true
			}
		}
		for _, name := range e.UClasses {
			if t := RangeTable(name); t != nil && unicode.Is(t, m) {
				return true
			}
		}
	}
	return false
}

// classMemberLowered models pigeon's lowering of ignore-case classes (members and the
// input rune are lower-cased separately, range end points included); it is used only to
// recognise cases that fall into the recorded finding D12.
func classMemberLowered(e *gspec.Expr, r rune) bool {
	if !e.IC {
		return ClassMember(e, r)
	}
	r = unicode.ToLower(r)
	for _, c := range e.Chars {
		if unicode.ToLower(c) == r {
			return true
		}
	}
	for i := 0; i+1 < len(e.Ranges); i += 2 {
		if r >= unicode.ToLower(e.Ranges[i]) && r <= unicode.ToLower(e.Ranges[i+1]) {
			return true
		}
	}
	for _, name := range e.UClasses {
		if t := RangeTable(name); t != nil && unicode.Is(t, r) {
			return true
		}
	}
	return false
}

// classTableModel models the -optimize-basic-latin table pigeon precomputes for an
// ignore-case class (members marked together with their other-case form, Unicode classes
// without any case handling); like classMemberLowered it only serves to recognise cases
// of the recorded finding.
func classTableModel(e *gspec.Expr, r rune) bool {
	if r >= 128 {
		return classMemberLowered(e, r)
	}
	other := func(x rune) rune {
		if unicode.IsLower(x) {
			return unicode.ToUpper(x)
		}
		return unicode.ToLower(x)
	}
	for _, c := range e.Chars {
		if c < 128 && (c == r || (e.IC && other(c) == r)) {
			return true
		}
	}
	for i := 0; i+1 < len(e.Ranges); i += 2 {
		lo, hi := e.Ranges[i], e.Ranges[i+1]
		if lo >= 128 {
			continue
		}
		for j := lo; j < 128 && j <= hi; j++ {
			if j == r || (e.IC && other(j) == r) {
				return true
			}
		}
	}
	for _, name := range e.UClasses {
		if t := RangeTable(name); t != nil && unicode.Is(t, r) {
			return true
		}
	}
	return false
}

// ICDeviates reports whether pigeon's handling of an ignore-case class (general path or
// basic-latin table) is predicted to decide differently from the definition on rune r:
// the matcher of finding KF-C15-ICLOWER.
func ICDeviates(e *gspec.Expr, r rune) bool {
	if !e.IC {
		return false
	}
	def := ClassMember(e, r)
	return def != classMemberLowered(e, r) || def != classTableModel(e, r)
}

// RangeTable resolves a Unicode class name like pigeon documents it (categories,
// scripts, properties).
func RangeTable(name string) *unicode.RangeTable {
	if t, ok := unicode.Categories[name]; ok {
		return t
	}
	if t, ok := unicode.Scripts[name]; ok {
		return t
	}
	if t, ok := unicode.Properties[name]; ok {
		return t
	}
	return nil
}

func (it *interp) class(e *gspec.Expr, off int) (any, int, bool) {
	it.st.TerminalAttempts++
	want := gspec.ClassText(e)
	if off >= len(it.in) {
		it.fail(false, off, want)
		return nil, off, false
	}
	r, w := utf8.DecodeRune(it.in[off:])
	member := ClassMember(e, r)
	if ICDeviates(e, r) {
		it.st.ICUnsafe++
	}
	if member == e.Inv {
		it.fail(false, off, want)
		return nil, off, false
	}
	if w > 1 {
		it.st.MultiByte = true
	}
	it.advance(off + w)
	it.fail(true, off, want)
	return it.in[off : off+w : off+w], off + w, true
}

func (it *interp) scopeVals(e *gspec.Expr, env map[string]any) []any {
	vals := make([]any, len(e.Scope))
	for i, n := range e.Scope {
		vals[i] = env[n]
	}
	return vals
}

func (it *interp) passedState() map[string]any {
	if it.g.HasState || it.g.StateIn {
		return it.state
	}
	return nil
}

func (it *interp) record(kind string, e *gspec.Expr, text []byte, p Pos, env map[string]any) vrt.Event {
	ev := vrt.Event{Kind: kind, ID: e.ID, Text: string(text), Line: p.Line, Col: p.Col, Off: p.Off,
		Labels: vrt.LabelsText(e.Scope, it.scopeVals(e, env)), Global: vrt.GlobalSnapshot(it.global)}
	if it.codeSeen == nil {
		it.codeSeen = map[[2]int]string{}
	}
	if prev, ok := it.codeSeen[[2]int{e.NID, p.Off}]; ok && prev != ev.Labels && !it.inLRRule(e.RuleOf) {
		it.st.CodeReevalDiff++
	}
	it.codeSeen[[2]int{e.NID, p.Off}] = ev.Labels
	if st := it.passedState(); st != nil {
		ev.State = vrt.StateSnapshot(st)
	}
	if p.Off > 0 && (p.Line > 1 || p.Off != p.Col-1) {
		// behind a newline (the line count went up) or behind a multi-byte rune or an invalid
		// byte sequence (columns count runes, offsets bytes)
		it.st.EventsAfterNL++
	}
	it.nEvents++
	if it.nEvents > 150000 {
		// (the recorder of the real parser keeps 200000 events at most: a case with more is too
		// expensive, not a finding)
		panic(budgetSignal{})
	}
	return ev
}

// fault consults the plan for the n-th invocation of a block and raises the fault.
// It returns the error message to record ("" = none).
func (it *interp) fault(e *gspec.Expr, errPos Pos, panicOff int) {
	it.counts[e.ID]++
	n := it.counts[e.ID]
	if it.opt.Plan == nil {
		return
	}
	for _, f := range it.opt.Plan.Faults {
		if f.ID != e.ID || (f.Nth != n && f.Nth != 0) {
			continue
		}
		it.st.FaultsFired++
		switch f.Kind {
		case "err", "err_join":
			it.addErr(f.Msg, errPos, it.curRuleName(), true, "code")
		case "panic_err", "panic_join":
			panic(panicSignal{val: &vrt.InjectedError{ID: f.ID, Nth: n, Msg: f.Msg}, off: panicOff, rule: it.curRuleName()})
		case "panic_str":
			panic(panicSignal{val: f.Msg, off: panicOff, rule: it.curRuleName()})
		case "panic_int":
			panic(panicSignal{val: vrt.PanicInt(40 + len(f.Msg)), off: panicOff, rule: it.curRuleName()})
		}
		return
	}
}

func (it *interp) action(e *gspec.Expr, start, end int, env map[string]any) any {
	it.st.Actions++
	p := it.pos[start]
	text := it.in[start:end]
	ev := it.record("act", e, text, p, env)
	it.events = append(it.events, ev)
	it.stale = append(it.stale, StaleCtx{})
	it.last = StaleCtx{Set: true, Text: string(text), Line: p.Line, Col: p.Col, Off: p.Off}
	vals := it.scopeVals(e, env)
	n := &vrt.Node{ID: e.ID, Text: string(text), Line: p.Line, Col: p.Col, Off: p.Off, Names: e.Scope, Vals: vals}
	// state writes attempted by the action are discarded: nothing to do (value semantics)
	it.fault(e, p, end)
	return n
}

func (it *interp) codePred(e *gspec.Expr, off int, env map[string]any) bool {
	it.st.CodePredEvals++
	p := it.pos[off]
	ev := it.record("pred", e, nil, p, env)
	ans := it.opt.Plan.PredAnswer(e.ID, ev.Labels)
	if e.Lim > 0 {
		ans = vrt.StateLess(it.passedState(), e.Lim)
	}
	ev.Ret = strconv.FormatBool(ans)
	it.events = append(it.events, ev)
	it.stale = append(it.stale, it.last)
	it.fault(e, p, off)
	return ans
}

func (it *interp) stateBlock(e *gspec.Expr, off int, env map[string]any) {
	it.st.StateBlocks++
	p := it.pos[off]
	ev := it.record("state", e, nil, p, env)
	it.events = append(it.events, ev)
	it.stale = append(it.stale, it.last)
	vrt.ApplyOps(it.state, it.global, gspec.OpsScript(e.Ops))
	for _, v := range it.state {
		if l, ok := v.(*vrt.CList); ok && len(l.Items) > 400 {
			// (every choice and sequence clones the store: a list of hundreds of items makes a
			// case too expensive for the reference - left-recursive rules that append in a tail
			// re-run the block at every growth step)
			panic(budgetSignal{})
		}
	}
	it.fault(e, p, off)
}
