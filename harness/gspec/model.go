// Package gspec is the harness' own grammar model: an AST for PEG grammars that is
// independent of pigeon/ast, printers that spell it as pigeon grammar text, the
// static analyses the oracle needs (label scopes, nullability, first sets) and the
// rapid generators (profiles) that draw grammars.
package gspec

import (
	"encoding/json"
	"fmt"
	"sort"
)

// Kind of an expression node.
type Kind string

const (
	KLit     Kind = "lit"
	KClass   Kind = "class"
	KAny     Kind = "any"
	KRef     Kind = "ref"
	KSeq     Kind = "seq"
	KChoice  Kind = "choice"
	KOpt     Kind = "opt"
	KStar    Kind = "star"
	KPlus    Kind = "plus"
	KAnd     Kind = "and"
	KNot     Kind = "not"
	KLabel   Kind = "label"
	KAction  Kind = "action"
	KAndCode Kind = "andcode"
	KNotCode Kind = "notcode"
	KState   Kind = "state"
	KThrow   Kind = "throw"
	KRecover Kind = "recover"
)

// StateOp is one scripted operation of a state-change block.
//
//	set k v   state[k] = v            (shallow int)
//	incr k    state[k] = state[k]+1   (shallow int, missing = 0)
//	del k     delete(state, k)
//	app k v   append v in place to the CList stored at k (created when missing)
//	gincr k   globalStore[k]++ (never rolled back)
type StateOp struct {
	Op  string `json:"op"`
	Key string `json:"k"`
	Val int    `json:"v,omitempty"`
}

// Expr is one expression node. Which fields are meaningful depends on K.
type Expr struct {
	K Kind `json:"k"`

	// KLit: Val (bytes of the literal value), IC.
	Val []byte `json:"val,omitempty"`
	IC  bool   `json:"ic,omitempty"`

	// KClass: Chars, Ranges (lo/hi pairs), UClasses, Inv, IC.
	Chars    []rune   `json:"chars,omitempty"`
	Ranges   []rune   `json:"ranges,omitempty"`
	UClasses []string `json:"ucl,omitempty"`
	Inv      bool     `json:"inv,omitempty"`

	// KLit / KClass: Sp selects the source spelling (0 = canonical): quoting of a literal
	// and, per member rune, the escape form (raw, \ooo, \xhh, \uhhhh, \Uhhhhhhhh). The form
	// of a rune depends on Sp and the rune only, so editing the members keeps the spelling
	// of the others.
	Sp int `json:"sp,omitempty"`

	// KRef: rule name; KLabel: label name; KThrow: failure label.
	Name string `json:"name,omitempty"`

	// children: Seq/Choice n; unary operators, Label, Action 1; Recover [guarded, recovery].
	Sub []*Expr `json:"sub,omitempty"`

	// KRecover: the failure labels handled.
	Labels []string `json:"labels,omitempty"`

	// code blocks (Action, AndCode, NotCode, State): unique id within the grammar.
	ID  int       `json:"id,omitempty"`
	Ops []StateOp `json:"ops,omitempty"`
	// Lim (KAndCode / KNotCode, > 0): the block answers "state[k1] < Lim" instead of what the
	// plan says - a predicate on the state store, as in ( &{depth > 0} #{depth--} )*.
	Lim int `json:"lim,omitempty"`

	// Code is the literal code block text including the braces (front-end checks only; ""
	// = the recorder call / stub rendered by the printer).
	Code string `json:"code,omitempty"`
	// P is the source position (line, col, offset) of the node's first token; CodeP / LabelP
	// those of the code block and the label identifier (front-end checks only).
	P      *[3]int `json:"p,omitempty"`
	CodeP  *[3]int `json:"codep,omitempty"`
	LabelP *[3]int `json:"labelp,omitempty"`

	// Scope is computed by (*Grammar).Analyze: the labels the code block receives, in order.
	Scope []string `json:"scope,omitempty"`
	// RuleOf is computed by Analyze: name of the rule that lexically contains the node.
	RuleOf string `json:"-"`
	// NID is computed by Analyze: a dense node number (pre-order), unique in the grammar.
	NID int `json:"-"`
}

// Rule of the grammar.
type Rule struct {
	Name    string `json:"name"`
	Display string `json:"display,omitempty"` // display name *value* ("" = none)
	Expr    *Expr  `json:"expr"`

	// P, NameP, DisplayP: positions of the rule, its name and its display name (front-end checks).
	P        *[3]int `json:"p,omitempty"`
	DisplayP *[3]int `json:"displayp,omitempty"`
	// DisplayRaw is the display name as spelled (with quotes), when it matters.
	DisplayRaw string `json:"display_raw,omitempty"`

	// LR (C08 profile): the rule is A <- A t1 / ... / A tn / b1 / ... / bm, stored in
	// Expr exactly like that; LRTails / LRBases index the alternatives so that the
	// reference interpreter can evaluate the rule by its denotation.
	LR *LRInfo `json:"lr,omitempty"`

	// Big marks the big entry rules of scale.go (kind: choice, seq, lit, class, chain, star)
	// and their wrappers: the input sampler lifts its size limits for them.
	Big string `json:"big,omitempty"`
}

// LRInfo describes a directly left-recursive rule (or the entry of a single
// indirect cycle) for evaluation by denotation.
type LRInfo struct {
	// Alternatives of Rule.Expr (a KChoice, each alternative optionally wrapped in an
	// action) that start with the recursive reference.
	Tails []int `json:"tails"`
	Bases []int `json:"bases"`
	// Via is the intermediate rule of an indirect cycle A <- B t / b ; B <- A u ("" = direct).
	Via string `json:"via,omitempty"`
}

// Grammar is a whole grammar specification plus the generation settings that belong to it.
type Grammar struct {
	Pkg      string   `json:"pkg"`            // Go package name of the generated parser
	Recv     string   `json:"recv,omitempty"` // receiver name ("" = c)
	Rules    []*Rule  `json:"rules"`
	Entries  []string `json:"entries"`            // rules usable as entry points by the checks
	HasState bool     `json:"has_state"`          // grammar contains state blocks
	StateIn  bool     `json:"state_in,omitempty"` // code blocks pass c.state to the recorder
	Profile  string   `json:"profile,omitempty"`
	// IndirectState: actions and code predicates reach the state store through a helper that
	// takes the receiver ( verifStateOf(c) ) instead of naming c.state in their own text.
	IndirectState bool `json:"indirect_state,omitempty"`
	NumIDs   int      `json:"num_ids"`
	// Decoy names a rule (never the first one) that the printed grammar defines twice: an
	// earlier definition `"\x00decoy"`-like literal that the real, later one replaces. pigeon
	// accepts repeated rule names; references, the analysis and the Entrypoint option all
	// resolve a name to its last definition, so the decoy never takes part in a parse.
	Decoy string `json:"decoy,omitempty"`
	// Init is the initializer code block including braces (front-end checks; "" = default).
	Init  string  `json:"init,omitempty"`
	InitP *[3]int `json:"initp,omitempty"`

	rules map[string]*Rule
}

// Receiver returns the receiver name used in code blocks.
func (g *Grammar) Receiver() string {
	if g.Recv == "" {
		return "c"
	}
	return g.Recv
}

// Rule looks a rule up by name.
func (g *Grammar) Rule(name string) *Rule {
	if g.rules == nil {
		g.rules = make(map[string]*Rule, len(g.Rules))
		for _, r := range g.Rules {
			if _, dup := g.rules[r.Name]; !dup {
				g.rules[r.Name] = r
			}
		}
	}
	return g.rules[name]
}

// HasStatePred reports whether some code predicate of the grammar answers from the state
// store (Expr.Lim > 0). Such a grammar is never parsed with Memoize: a memo hit does not run
// state blocks again, so the repetition that goes with the predicate need not end
// (KF-C16-MEMOZERO).
func (g *Grammar) HasStatePred() bool {
	found := false
	for _, r := range g.Rules {
		Walk(r.Expr, func(e *Expr) { found = found || e.Lim > 0 })
	}
	return found
}

// Reindex must be called after the rule list is changed.
func (g *Grammar) Reindex() { g.rules = nil }

// Clone makes a deep copy (through JSON; the model is plain data).
func (g *Grammar) Clone() *Grammar {
	b, err := json.Marshal(g)
	if err != nil {
		panic(err)
	}
	var c Grammar
	if err := json.Unmarshal(b, &c); err != nil {
		panic(err)
	}
	c.Analyze()
	return &c
}

// ToJSON / FromJSON.
func (g *Grammar) ToJSON() []byte {
	b, err := json.Marshal(g)
	if err != nil {
		panic(err)
	}
	return b
}

func FromJSON(b []byte) (*Grammar, error) {
	var g Grammar
	if err := json.Unmarshal(b, &g); err != nil {
		return nil, err
	}
	g.Analyze()
	return &g, nil
}

// Walk visits e and all descendants in pre-order.
func Walk(e *Expr, f func(*Expr)) {
	if e == nil {
		return
	}
	f(e)
	for _, s := range e.Sub {
		Walk(s, f)
	}
}

// NodeCount returns the number of expression nodes of the grammar.
func (g *Grammar) NodeCount() int {
	n := 0
	for _, r := range g.Rules {
		Walk(r.Expr, func(*Expr) { n++ })
	}
	return n
}

// Kinds returns the sorted set of node kinds used.
func (g *Grammar) Kinds() []string {
	m := map[string]bool{}
	for _, r := range g.Rules {
		Walk(r.Expr, func(e *Expr) { m[string(e.K)] = true })
	}
	out := make([]string, 0, len(m))
	for k := range m {
		out = append(out, k)
	}
	sort.Strings(out)
	return out
}

// IsCode reports whether the node carries a code block.
func (e *Expr) IsCode() bool {
	switch e.K {
	case KAction, KAndCode, KNotCode, KState:
		return true
	}
	return false
}

// Analyze computes Scope, RuleOf, NID for every node and NumIDs/HasState.
// The scope rule is the documented one as the builder implements it: a code block
// receives the labels that precede it (document order) within the innermost
// enclosing scope, where scopes are opened by a rule, a choice alternative, the
// operand of a label, of & and !, of ? * +, and by a recovery operator (both operands
// share it).
func (g *Grammar) Analyze() {
	g.rules = nil
	nid := 0
	maxID := 0
	g.HasState = false
	for _, r := range g.Rules {
		stack := [][]string{nil}
		var walk func(e *Expr)
		push := func() { stack = append(stack, nil) }
		pop := func() { stack = stack[:len(stack)-1] }
		top := func() []string { return append([]string(nil), stack[len(stack)-1]...) }
		walk = func(e *Expr) {
			if e == nil {
				return
			}
			nid++
			e.NID = nid
			e.RuleOf = r.Name
			if e.ID > maxID {
				maxID = e.ID
			}
			switch e.K {
			case KAction:
				walk(e.Sub[0])
				e.Scope = top()
			case KAndCode, KNotCode:
				e.Scope = top()
			case KState:
				e.Scope = top()
				g.HasState = true
			case KLabel:
				stack[len(stack)-1] = append(stack[len(stack)-1], e.Name)
				push()
				walk(e.Sub[0])
				pop()
			case KAnd, KNot, KOpt, KStar, KPlus:
				push()
				walk(e.Sub[0])
				pop()
			case KChoice:
				for _, a := range e.Sub {
					push()
					walk(a)
					pop()
				}
			case KRecover:
				push()
				walk(e.Sub[0])
				walk(e.Sub[1])
				pop()
			case KSeq:
				for _, s := range e.Sub {
					walk(s)
				}
			}
		}
		walk(r.Expr)
	}
	g.NumIDs = maxID + 1
}

// Validate checks structural sanity of a specification (arity, names); it returns an
// error for generator bugs, never for pigeon behaviour.
func (g *Grammar) Validate() error {
	seen := map[string]bool{}
	for _, r := range g.Rules {
		if seen[r.Name] {
			return fmt.Errorf("duplicate rule %s", r.Name)
		}
		seen[r.Name] = true
	}
	var err error
	for _, r := range g.Rules {
		Walk(r.Expr, func(e *Expr) {
			want := -1
			switch e.K {
			case KLit, KClass, KAny, KRef, KAndCode, KNotCode, KState, KThrow:
				want = 0
			case KOpt, KStar, KPlus, KAnd, KNot, KLabel, KAction:
				want = 1
			case KRecover:
				want = 2
			case KSeq, KChoice:
				if len(e.Sub) < 2 {
					err = fmt.Errorf("rule %s: %s with %d children", r.Name, e.K, len(e.Sub))
				}
			default:
				err = fmt.Errorf("rule %s: unknown kind %q", r.Name, e.K)
			}
			if want >= 0 && len(e.Sub) != want {
				err = fmt.Errorf("rule %s: %s with %d children", r.Name, e.K, len(e.Sub))
			}
			if e.K == KRef && !seen[e.Name] {
				err = fmt.Errorf("rule %s: undefined reference %s", r.Name, e.Name)
			}
			if e.K == KClass && len(e.Ranges)%2 != 0 {
				err = fmt.Errorf("rule %s: odd range list", r.Name)
			}
		})
	}
	return err
}

// Constructors (terse, used by generators and tests).
func Lit(s string) *Expr            { return &Expr{K: KLit, Val: []byte(s)} }
func LitI(s string) *Expr           { return &Expr{K: KLit, Val: []byte(s), IC: true} }
func Any() *Expr                    { return &Expr{K: KAny} }
func Ref(n string) *Expr            { return &Expr{K: KRef, Name: n} }
func Seq(s ...*Expr) *Expr          { return &Expr{K: KSeq, Sub: s} }
func Choice(s ...*Expr) *Expr       { return &Expr{K: KChoice, Sub: s} }
func Opt(e *Expr) *Expr             { return &Expr{K: KOpt, Sub: []*Expr{e}} }
func Star(e *Expr) *Expr            { return &Expr{K: KStar, Sub: []*Expr{e}} }
func Plus(e *Expr) *Expr            { return &Expr{K: KPlus, Sub: []*Expr{e}} }
func And(e *Expr) *Expr             { return &Expr{K: KAnd, Sub: []*Expr{e}} }
func Not(e *Expr) *Expr             { return &Expr{K: KNot, Sub: []*Expr{e}} }
func Label(n string, e *Expr) *Expr { return &Expr{K: KLabel, Name: n, Sub: []*Expr{e}} }
func Action(id int, e *Expr) *Expr  { return &Expr{K: KAction, ID: id, Sub: []*Expr{e}} }
func AndCode(id int) *Expr          { return &Expr{K: KAndCode, ID: id} }
func NotCode(id int) *Expr          { return &Expr{K: KNotCode, ID: id} }
func State(id int, ops ...StateOp) *Expr {
	return &Expr{K: KState, ID: id, Ops: ops}
}
func Throw(l string) *Expr { return &Expr{K: KThrow, Name: l} }
func Recover(e, rec *Expr, labels ...string) *Expr {
	return &Expr{K: KRecover, Sub: []*Expr{e, rec}, Labels: labels}
}
func Class(chars string, ranges ...rune) *Expr {
	return &Expr{K: KClass, Chars: []rune(chars), Ranges: ranges}
}

// StateReachable reports whether a state block is reachable from the given rules (the
// optimizer removes rules that nothing reachable refers to).
func (g *Grammar) StateReachable(from []string) bool {
	seen := map[string]bool{}
	found := false
	var visit func(name string)
	visit = func(name string) {
		if seen[name] {
			return
		}
		seen[name] = true
		r := g.Rule(name)
		if r == nil {
			return
		}
		Walk(r.Expr, func(e *Expr) {
			switch e.K {
			case KState:
				found = true
			case KRef:
				visit(e.Name)
			}
		})
	}
	for _, n := range from {
		visit(n)
	}
	return found
}

// InlineLabelClash is the matcher of the run-time face of KF-C04-OPTSCOPE: -optimize-grammar
// inlines a rule R into a rule S without giving R's labels a frame of their own. Where R's
// labels land in a frame of S that already binds the same name, the builder normally emits a
// duplicate parameter (the generated file does not compile - the face C04 records). Under a
// recovery operator the builder opens a parameter scope of its own but the runtime does not
// push a frame: the file compiles and R's binding silently replaces S's for every later code
// block of S. The predicate: some rule S contains a recovery operator from which a rule
// reference is reachable through sequences, actions and recovery operators only, and the
// referenced rule (transitively, by the same path rule) binds, in its top frame, a label name
// that also occurs in S.
func (g *Grammar) InlineLabelClash() bool {
	var topLabels func(e *Expr, depth int, out map[string]bool)
	topLabels = func(e *Expr, depth int, out map[string]bool) {
		if depth > 12 {
			return
		}
		switch e.K {
		case KLabel:
			out[e.Name] = true
		case KSeq, KAction, KRecover:
			for _, s := range e.Sub {
				topLabels(s, depth+1, out)
			}
		case KRef:
			if r := g.Rule(e.Name); r != nil {
				topLabels(r.Expr, depth+1, out)
			}
		}
	}
	var refsAtTop func(e *Expr, out *[]*Expr)
	refsAtTop = func(e *Expr, out *[]*Expr) {
		switch e.K {
		case KRef:
			*out = append(*out, e)
		case KSeq, KAction, KRecover:
			for _, s := range e.Sub {
				refsAtTop(s, out)
			}
		}
	}
	for _, r := range g.Rules {
		names := map[string]bool{}
		Walk(r.Expr, func(e *Expr) {
			if e.K == KLabel {
				names[e.Name] = true
			}
		})
		if len(names) == 0 {
			continue
		}
		clash := false
		Walk(r.Expr, func(e *Expr) {
			if e.K != KRecover || clash {
				return
			}
			var refs []*Expr
			refsAtTop(e, &refs)
			for _, ref := range refs {
				tl := map[string]bool{}
				topLabels(ref, 0, tl)
				for n := range tl {
					if names[n] {
						clash = true
					}
				}
			}
		})
		if clash {
			return true
		}
	}
	return false
}
