package gspec

import "pgregory.net/rapid"

// U draws a (nearly) uniform integer in [0, n). rapid's own integer generators are
// deliberately biased towards small values (IntRange(0,99) is below 10 in ~40% of the
// draws), which skews every percentage-based choice; U is built from fair bits
// (rapid.Bool) instead, so it still shrinks towards 0 and replays deterministically.
func U(t *rapid.T, n int, label string) int {
	if n <= 1 {
		return 0
	}
	bits := 3
	for 1<<bits < n*8 {
		bits++
	}
	v := 0
	for i := 0; i < bits; i++ {
		v <<= 1
		if rapid.Bool().Draw(t, label) {
			v |= 1
		}
	}
	return v % n
}

// Pick draws a uniform element.
func Pick[T any](t *rapid.T, xs []T, label string) T {
	return xs[U(t, len(xs), label)]
}
