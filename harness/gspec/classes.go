package gspec

import (
	"fmt"

	"pgregory.net/rapid"
)

var classCharPool = []rune{'a', 'b', 'k', 'z', 'A', 'B', 'K', 'Z', '0', '5', '9', '_', '-', ']', '\\', '^', ' ', '!', '@', '[', '`', '{', '~', '\n', '\t', 0, 0x7f,
	'é', 'É', 'ß', 'ÿ', 'Ÿ', 'µ', 'ſ', 'K', 'Å', 'Ω', 'ω', 'Ж', 'ж', '日', '😀', 'ǅ', '�'}

var classRangeEnds = []rune{0, '0', '9', 'A', 'Z', '_', 'a', 'k', 'z', 0x7f, 0x80, 'À', 'ß', 'ÿ', 'Α', 'ω', 'А', 'я', '一', '鿿', 0x10400, 0x1044f, 0x1f600}

var classUPool = []string{"L", "Lu", "Ll", "Lt", "Lm", "Lo", "M", "Mn", "N", "Nd", "Nl", "No", "P", "Pd", "Po", "S", "Sm", "Sc", "Z", "Zs", "C", "Cc", "Cf",
	"Latin", "Greek", "Cyrillic", "Han", "Hiragana", "Common", "White_Space", "ASCII_Hex_Digit", "Dash", "Hex_Digit", "Other_Alphabetic"}

// ClassGrammarGen draws grammars of n single-class entry rules (C15): any mix of
// characters, ranges (also straddling case boundaries or descending), Unicode classes,
// with and without ^ and i.
func ClassGrammarGen(n int) *rapid.Generator[*Grammar] {
	return rapid.Custom(func(t *rapid.T) *Grammar {
		g := &Grammar{Pkg: "p", Profile: "classes"}
		for i := 0; i < n; i++ {
			e := &Expr{K: KClass}
			e.IC = U(t, 3, "ic") == 0
			e.Inv = U(t, 4, "inv") == 0
			items := U(t, 5, "items")
			if items == 0 && U(t, 4, "keepempty") != 0 {
				items = 1
			}
			// one class in twenty is wide: 66, 130 or 258 members (more than fit any table
			// or counter sized for "a handful"), spread over Basic Latin and the blocks behind it
			wide := U(t, 20, "wide") == 0
			if wide {
				items = Pick(t, []int{66, 130, 258}, "wideitems")
			}
			for j := 0; j < items; j++ {
				switch k := U(t, 10, "itemkind"); {
				case wide && k < 5:
					e.Chars = append(e.Chars, rune(0x21+U(t, 0x260, "widechar")))
				case wide && k < 9:
					lo := rune(0x21 + U(t, 0x260, "widelo"))
					e.Ranges = append(e.Ranges, lo, lo+rune(U(t, 6, "widespan")))
				case k < 4:
					e.Chars = append(e.Chars, Pick(t, classCharPool, "char"))
				case k < 8:
					lo, hi := Pick(t, classRangeEnds, "lo"), Pick(t, classRangeEnds, "hi")
					if lo > hi && U(t, 6, "descending") != 0 {
						lo, hi = hi, lo
					}
					e.Ranges = append(e.Ranges, lo, hi)
				default:
					e.UClasses = append(e.UClasses, Pick(t, classUPool, "ucl"))
				}
			}
			name := fmt.Sprintf("C%d", i+1)
			g.Rules = append(g.Rules, &Rule{Name: name, Expr: e})
			g.Entries = append(g.Entries, name)
		}
		g.Analyze()
		return g
	})
}
