package gspec

import (
	"fmt"

	"pgregory.net/rapid"
)

// Alphabet is the rune pool for literals, classes and inputs: ASCII letters of both
// cases, digits, characters that are special somewhere in the grammar syntax, white
// space, 2/3/4-byte runes, case pairs outside ASCII, the Kelvin sign (lower-cases to
// ASCII k) and U+FFFD.
var Alphabet = []rune{'a', 'b', 'c', 'A', 'B', 'k', 'K', '0', '1', '_', '-', ']', '\\', '"', '\'', '^', ' ', '\n', '\t',
	'é', 'É', 'ß', '日', 'K', '😀', '�', 'Ⱥ', 'ⱥ', 'ǅ', 'Ⅳ', '%', ','}

// SafeAlphabet leaves out the runes that only matter to the front-end.
// (Ⱥ U+023A is two bytes long, its lower case ⱥ U+2C65 three; the Kelvin sign is three bytes long,
// its lower case is the ASCII k; a percent sign and a comma - next to the blank - are what a
// message built with a format string or joined with ", " must leave alone; ǅ U+01C5 and Ⅳ U+2163
// have a lower case without being upper-case letters)
var SafeAlphabet = []rune{'a', 'b', 'c', 'A', 'B', 'k', '0', '1', '_', ' ', '\n', 'é', 'É', '日', '😀', 'Ⱥ', 'ⱥ', '\u212a', '%', ',', 'ǅ', 'Ⅳ'}

// UClassPool are the Unicode classes drawn by the ordinary profiles.
// (ASCII_Hex_Digit is the one table without a member behind Basic Latin)
var UClassPool = []string{"L", "Lu", "Ll", "N", "Nd", "P", "Z", "S", "M", "C", "Latin", "Greek", "Han", "Cyrillic", "White_Space", "ASCII_Hex_Digit"}

// GenConfig selects the feature mix of a profile.
type GenConfig struct {
	Profile     string
	Code        bool // labels, actions, code predicates
	StateBlocks bool
	Throw       bool
	Display     bool
	ICLit       bool // ignore-case literals
	ICClass     bool // ignore-case classes
	ICUnsafe    bool // allow ignore-case classes with ranges across case boundaries / Unicode classes (D12 domain)
	UClasses    bool
	EmptyLit    bool
	EmptyClass  bool
	Preds       bool // & and !
	MaxDepth    int
	MinHelpers  int
	MaxHelpers  int
	MinEntries  int
	MaxEntries  int
	Alphabet    []rune
	Wrappers    bool // add W_i = v:E_i {action} wrappers
	Diverging   bool // allow nullable repetition bodies (C16)
	SharedRefs  bool // bias towards shared sub-rules referenced from several alternatives (C06)
	NameStyle   int  // 0 plain, 1 adversarial (C04)
	Recv        string
	OptBait     bool // bias to shapes the grammar optimizer rewrites (C09)
	NoCodePred  bool // no &{} / !{} blocks (bootstrap subset)
	NoSpellings bool // canonical spelling of literals and classes only
	ByteLits    bool // literals whose value is not UTF-8 (front-end checks only)
	NoScale     bool // no big entry rules (scale.go)
}

// Profile returns the configuration of a named profile.
func Profile(name string) GenConfig {
	c := GenConfig{Profile: name, MaxDepth: 4, MinHelpers: 2, MaxHelpers: 5, MinEntries: 3, MaxEntries: 5,
		Alphabet: SafeAlphabet, Preds: true, ICLit: true, ICClass: true, UClasses: true, EmptyLit: true}
	switch name {
	case "core":
		c.Wrappers = true
	case "codeblocks":
		c.Code = true
		c.Wrappers = true
	case "stateful":
		c.Code = true
		c.StateBlocks = true
		c.Wrappers = true
	case "faults":
		c.Code = true
		c.Display = true
		c.Wrappers = true
	case "errors":
		c.EmptyClass = true
		c.Wrappers = false
		c.EmptyLit = false
	case "throwrecover":
		c.Code = true
		c.Throw = true
		c.Wrappers = true
	case "statefulthrow":
		// state blocks together with throw / recover (every failed handler, every handler that
		// matched and every throw that fell through must leave the store as the contract says)
		c.Code = true
		c.StateBlocks = true
		c.Throw = true
		c.Wrappers = true
	case "memo":
		c.Code = true
		c.SharedRefs = true
		c.Wrappers = true
	case "diverging":
		c.Diverging = true
		c.Code = true
	case "utf8":
		c.Alphabet = Alphabet
		c.Code = true
		c.Wrappers = true
	case "frontend":
		c.Alphabet = Alphabet
		c.Code = true
		c.StateBlocks = true
		c.Throw = true
		c.Display = true
		c.EmptyClass = true
		c.ICUnsafe = true
		c.NoSpellings = true // the speller of the front-end checks draws its own spellings
		c.ByteLits = true
	case "bootsub":
		// the syntax subset of the hand-written bootstrap front-end: no recovery/throw, no code
		// predicates, no state blocks
		c.Code = true
		c.Display = true
		c.NoCodePred = true
		c.NoSpellings = true
		c.Alphabet = Alphabet
	case "optbait":
		c.Code = true
		c.SharedRefs = true
		c.Wrappers = true
		c.OptBait = true
		c.MinHelpers, c.MaxHelpers = 3, 6
	case "names":
		c.Code = true
		c.NameStyle = 1
		c.Wrappers = true
	default:
		panic("gspec: unknown profile " + name)
	}
	return c
}

type gen struct {
	t             *rapid.T
	cfg           *GenConfig
	g             *Grammar
	names         []string        // rule names, index order
	nullable      map[string]bool // rules generated so far
	ruleIdx       int
	nextID        int
	labelN        int
	recRules      []string // dedicated recovery rules
	noCode        bool     // inside a recovery expression: no code blocks, no labels
	noThrow       bool
	handled       []string // failure labels handled by the lexically enclosing recovery operators
	inRecover     int
	forceLabel    string
	classLeaves   []string // optbait: helper rules that are plain classes
	inlineRecCode bool     // recovery expressions of operators (not the dedicated rules) may hold label-free actions and references to recovery rules
}

func (c *gen) intn(lo, hi int, l string) int { return lo + U(c.t, hi-lo+1, l) }
func (c *gen) chance(pct int, l string) bool { return U(c.t, 100, l) < pct }

func (c *gen) id() int {
	c.nextID++
	return c.nextID
}

func (c *gen) rune_() rune {
	return Pick(c.t, c.cfg.Alphabet, "rune")
}

func (c *gen) lit() *Expr {
	n := c.intn(1, 3, "litlen")
	if c.cfg.EmptyLit && c.chance(4, "emptylit") {
		n = 0
	}
	rs := make([]rune, n)
	for i := range rs {
		rs[i] = c.rune_()
	}
	e := &Expr{K: KLit, Val: []byte(string(rs))}
	if c.chance(3, "msglit") {
		// values that look like the glue of a message: the separators of a list, format verbs
		e.Val = []byte(Pick(c.t, []string{", ", " or ", "%d", "%!s(", "a, b", "%", ": ", "\"", "!"}, "msglitval"))
	}
	if c.cfg.ByteLits && c.chance(6, "bytelit") {
		// one or two bytes that are not UTF-8 (written as \xhh / \ooo; no i flag: lower-casing
		// is defined on runes)
		e.Val = [][]byte{{0xe9}, {0x80}, {0xff}, {0xc3}, {'a', 0xe9}, {0xe9, 0xe9}}[c.intn(0, 5, "bytelitval")]
		return e
	}
	if c.cfg.ICLit && c.chance(25, "litic") {
		e.IC = true
	}
	e.Sp = c.spelling()
	return e
}

func (c *gen) class() *Expr {
	e := &Expr{K: KClass}
	if c.cfg.ICClass && c.chance(25, "classic") {
		e.IC = true
	}
	e.Inv = c.chance(25, "classinv")
	n := c.intn(1, 3, "classitems")
	if c.cfg.EmptyClass && c.chance(5, "emptyclass") {
		n = 0
	}
	if c.cfg.Profile == "frontend" && c.chance(5, "hyphenbait") {
		// a member hyphen between two characters with a class escape (or a range) for the
		// speller to put next to it: [a\pL-z] holds a, \pL, - and z
		e.Chars = []rune{Pick(c.t, []rune{'a', '0', '_'}, "hb1"), '-', Pick(c.t, []rune{'z', '9', 'é'}, "hb2")}
		e.UClasses = []string{Pick(c.t, UClassPool, "hbucl")}
		if c.chance(40, "hbrange") {
			e.Ranges = []rune{'b', 'd'}
		}
		return e
	}
	for i := 0; i < n; i++ {
		switch k := c.intn(0, 9, "classitem"); {
		case k < 5:
			e.Chars = append(e.Chars, c.rune_())
		case k < 8 || !c.cfg.UClasses || (e.IC && !c.cfg.ICUnsafe):
			pairs := [][2]rune{{'a', 'c'}, {'a', 'z'}, {'A', 'Z'}, {'0', '9'}, {'0', '1'}, {'b', 'k'}, {'À', 'ÿ'}, {'一', '鿿'}}
			if !e.IC {
				// ranges that cross the end of Basic Latin
				pairs = append(pairs, [2]rune{'{', 'é'}, [2]rune{' ', '￿'}, [2]rune{'~', '¡'})
				// ranges between two characters without case that hold letters of one case only
				pairs = append(pairs, [2]rune{' ', '_'}, [2]rune{'[', '~'}, [2]rune{'!', '@'})
			}
			if c.cfg.ICUnsafe {
				pairs = append(pairs, [2]rune{'0', 'Z'}, [2]rune{'Z', 'a'}, [2]rune{'A', 'z'}, [2]rune{'_', 'b'}, [2]rune{'c', 'a'})
			}
			p := Pick(c.t, pairs, "range")
			e.Ranges = append(e.Ranges, p[0], p[1])
		default:
			e.UClasses = append(e.UClasses, Pick(c.t, UClassPool, "ucl"))
		}
	}
	e.Sp = c.spelling()
	return e
}

// spelling draws the spelling seed of a terminal: mostly canonical, otherwise escapes and
// quotings (see Expr.Sp).
func (c *gen) spelling() int {
	if c.cfg.NoSpellings || !c.chance(25, "spelled") {
		return 0
	}
	return 1 + U(c.t, 1<<12, "spelling")
}

func (c *gen) terminal() (*Expr, bool) {
	switch k := c.intn(0, 9, "term"); {
	case k < 5:
		e := c.lit()
		return e, len(e.Val) == 0
	case k < 9:
		return c.class(), false
	}
	return &Expr{K: KAny}, false
}

// consuming returns a terminal that cannot succeed without consuming.
func (c *gen) consuming() *Expr {
	for {
		e, n := c.terminal()
		if !n {
			return e
		}
	}
}

func (c *gen) label() string {
	c.labelN++
	if c.cfg.NameStyle == 1 {
		pool := []string{"x", "y", "z", "v", "val", "p", "cur", "stack", "ctx", "e", "err", "ok", "text", "pos", "_a", "é", "l"}
		return fmt.Sprintf("%s%d", Pick(c.t, pool, "lname"), c.labelN)
	}
	return fmt.Sprintf("l%d", c.labelN)
}

// scoped draws a sub-expression that opens a new label scope (operand of ? * + & !, a
// choice alternative): label names restart there, so the same name is bound in different
// scopes of one rule, as hand-written grammars do (`v:Item ( ',' v:Item {..} )* {..}`).
// Inside recovery operators names stay unique (the builder gives the operator a scope of
// its own, the runtime does not).
func (c *gen) scoped(f func() (*Expr, bool)) (*Expr, bool) {
	if c.inRecover > 0 || !c.cfg.Code {
		return f()
	}
	save := c.labelN
	c.labelN = 0
	e, n := f()
	c.labelN = save
	return e, n
}

// ref draws a reference: forward (higher index, any position) or, when guarded, any rule.
func (c *gen) ref(guarded bool) (*Expr, bool, bool) {
	var cands []string
	if guarded && c.chance(50, "backref") {
		cands = c.names
	} else {
		cands = c.names[c.ruleIdx+1:]
	}
	if len(cands) == 0 {
		return nil, false, false
	}
	var n string
	if c.cfg.SharedRefs && len(c.names) > 0 && c.chance(60, "sharedref") && len(c.names[c.ruleIdx+1:]) > 0 {
		// bias towards the last helpers so that they are reached from several places
		tail := c.names[c.ruleIdx+1:]
		n = tail[len(tail)-1-c.intn(0, min(1, len(tail)-1), "sharedidx")]
	} else {
		n = Pick(c.t, cands, "refname")
	}
	nullable, known := c.nullable[n]
	if !known {
		nullable = true // back reference: unknown yet, be conservative
	}
	return &Expr{K: KRef, Name: n}, nullable, true
}

// expr draws an expression and reports whether it may succeed without consuming input
// (conservative). guarded = the expression starts behind a consuming prefix of the
// current rule activation, so any rule may be referenced.
func (c *gen) expr(depth int, guarded bool) (*Expr, bool) {
	if depth >= c.cfg.MaxDepth {
		if c.chance(30, "leafref") {
			if e, n, ok := c.ref(guarded); ok {
				return e, n
			}
		}
		return c.terminal()
	}
	if c.cfg.OptBait && c.chance(25, "optbait") {
		return c.bait()
	}
	if c.cfg.SharedRefs && c.cfg.Preds && !c.cfg.OptBait && c.chance(8, "lookaheadbait") {
		if e, n, ok := c.lookaheadBait(); ok {
			return e, n
		}
	}
	if c.cfg.Throw && !c.noThrow && len(c.handled) > 0 && c.chance(10, "throwexpr") {
		return &Expr{K: KThrow, Name: c.flabel()}, true
	}
	if c.cfg.Code && !c.noCode && c.inRecover == 0 && depth < c.cfg.MaxDepth && c.chance(6, "shadowbait") {
		return c.shadowBait(), false
	}
	if c.cfg.Profile == "errors" && c.chance(6, "eofbait") {
		// ( !. / !t u ) in either order: where the input goes on with t, end of input and the
		// inverted terminal are expected at one offset ( !"t" sorts before !. , EOF is listed last)
		t := c.consuming()
		a := &Expr{K: KNot, Sub: []*Expr{{K: KAny}}}
		b := &Expr{K: KSeq, Sub: []*Expr{{K: KNot, Sub: []*Expr{t}}, c.consuming()}}
		if c.chance(50, "eofbaitorder") {
			return &Expr{K: KChoice, Sub: []*Expr{a, b}}, true
		}
		return &Expr{K: KChoice, Sub: []*Expr{b, a}}, true
	}
	if c.cfg.Code && !c.noCode && c.inRecover == 0 && depth < c.cfg.MaxDepth && c.chance(5, "nillabelbait") {
		return c.nilLabelBait(), false
	}
	if c.cfg.StateBlocks && !c.noCode && c.chance(6, "statepredbait") {
		return c.statePredBait(), true
	}
	k := c.intn(0, 99, "kind")
	switch {
	case k < 22:
		return c.terminal()
	case k < 34:
		if e, n, ok := c.ref(guarded); ok {
			return e, n
		}
		return c.terminal()
	case k < 56:
		return c.seq(depth, guarded)
	case k < 68:
		n := c.intn(2, 4, "nalts")
		e := &Expr{K: KChoice}
		null := false
		for i := 0; i < n; i++ {
			a, an := c.scoped(func() (*Expr, bool) { return c.altExpr(depth+1, guarded) })
			e.Sub = append(e.Sub, a)
			null = null || an
		}
		return e, null
	case k < 76:
		b, _ := c.scoped(func() (*Expr, bool) { return c.expr(depth+1, guarded) })
		return &Expr{K: KOpt, Sub: []*Expr{b}}, true
	case k < 88:
		b, bn := c.scoped(func() (*Expr, bool) { return c.expr(depth+1, guarded) })
		if bn && !c.cfg.Diverging {
			b = &Expr{K: KSeq, Sub: []*Expr{b, c.consuming()}}
			bn = false
		} else if bn && !c.chance(35, "diverge") {
			b = &Expr{K: KSeq, Sub: []*Expr{b, c.consuming()}}
			bn = false
		}
		if c.chance(50, "star") {
			return &Expr{K: KStar, Sub: []*Expr{b}}, true
		}
		return &Expr{K: KPlus, Sub: []*Expr{b}}, bn
	case k < 95 && c.cfg.Preds:
		b, _ := c.scoped(func() (*Expr, bool) { return c.expr(depth+1, guarded) })
		if c.chance(50, "and") {
			return &Expr{K: KAnd, Sub: []*Expr{b}}, true
		}
		return &Expr{K: KNot, Sub: []*Expr{b}}, true
	case c.cfg.Throw && !c.noThrow:
		return c.recover(depth, guarded)
	}
	if c.cfg.Throw && !c.noThrow && c.chance(50, "morerecover") {
		return c.recover(depth, guarded)
	}
	return c.seq(depth, guarded)
}

// bait draws shapes the grammar optimizer combines: choices of single-rune literals and
// classes (with and without i and ^), sequences of adjacent literals, nested choices.
func (c *gen) bait() (*Expr, bool) {
	one := func() *Expr {
		if c.chance(55, "baitlit") {
			e := &Expr{K: KLit, Val: []byte(string(c.rune_()))}
			e.IC = c.chance(25, "baitlitic")
			return e
		}
		return c.class()
	}
	if len(c.classLeaves) > 0 && c.chance(35, "baitleaf") {
		// a leaf class rule next to single-rune literals / related classes in a choice: the
		// optimizer inlines a copy of the class and merges the neighbours into it
		if c.chance(40, "baitleafpair") {
			// leaf / class-with-ranges: the copy of the leaf class is the one the neighbour's
			// members are appended to
			nb := c.relatedClass()
			if c.chance(60, "baitonerange") {
				// exactly one range fits into the spare capacity of a three-range slice
				nb = &Expr{K: KClass, Ranges: append([]rune{}, nb.Ranges[:2]...)}
			}
			return &Expr{K: KChoice, Sub: []*Expr{{K: KRef, Name: Pick(c.t, c.classLeaves, "baitleafname")}, nb}}, false
		}
		n := c.intn(2, 3, "baitn")
		e := &Expr{K: KChoice}
		refAt := c.intn(0, n-1, "baitrefat")
		for i := 0; i < n; i++ {
			if i == refAt {
				e.Sub = append(e.Sub, &Expr{K: KRef, Name: Pick(c.t, c.classLeaves, "baitleafname")})
			} else if c.chance(70, "baitleaflit") {
				e.Sub = append(e.Sub, &Expr{K: KLit, Val: []byte(string(c.rune_()))})
			} else {
				e.Sub = append(e.Sub, c.relatedClass())
			}
		}
		return e, false
	}
	if c.chance(8, "splitrune") {
		// adjacent literals that are pieces of one rune's encoding ( "\xc3" "\xa9" ): each piece
		// is not UTF-8 by itself and matches one invalid byte (or U+FFFD); joined they would be é
		enc := []byte(string(Pick(c.t, []rune{'é', '日', '😀'}, "splitwhat")))
		at := c.intn(1, len(enc)-1, "splitat")
		e := &Expr{K: KSeq, Sub: []*Expr{{K: KLit, Val: append([]byte{}, enc[:at]...)}, {K: KLit, Val: append([]byte{}, enc[at:]...)}}}
		if c.chance(40, "splitprefix") {
			e.Sub = append([]*Expr{c.lit()}, e.Sub...)
		}
		return e, false
	}
	if c.chance(6, "prefixlitbait") {
		// a literal that is a prefix of a later alternative, with and without the i flag on either:
		// "g" / "gib"i - only the later one matches "Gib"
		p := string(Pick(c.t, []rune{'g', 'k', 'é', 'B'}, "plp"))
		a := &Expr{K: KLit, Val: []byte(p), IC: c.chance(30, "plaic")}
		b := &Expr{K: KLit, Val: []byte(p + Pick(c.t, []string{"ib", "A", "0é"}, "plrest")), IC: c.chance(60, "plbic")}
		alts := []*Expr{a}
		if c.chance(50, "plmid") {
			alts = append(alts, &Expr{K: KLit, Val: []byte(string(c.rune_()))})
		}
		return &Expr{K: KChoice, Sub: append(alts, b)}, false
	}
	if c.chance(6, "mixedcasebait") {
		// a class without the i flag whose members have no case but whose range holds letters of
		// one case, next to a class with the flag: [ -_] / [é]i (no reading of "same kind" or
		// "caseless" lets the two be one class)
		a := &Expr{K: KClass, Ranges: Pick(c.t, [][]rune{{' ', '_'}, {'[', '~'}, {' ', '@', '[', '~'}, {'!', '`'}}, "mcrange")}
		if c.chance(40, "mcchar") {
			a.Chars = []rune{Pick(c.t, []rune{'0', '_', ' ', '日'}, "mcchar1")}
		}
		b := &Expr{K: KClass, IC: true, Chars: []rune{Pick(c.t, []rune{'é', 'b', 'É', 'K'}, "mcchar2")}}
		if c.chance(50, "mcorder") {
			a, b = b, a
		}
		return &Expr{K: KChoice, Sub: []*Expr{a, b}}, false
	}
	switch c.intn(0, 4, "baitkind") {
	case 4:
		// classes whose ranges share an end point, side by side
		return &Expr{K: KChoice, Sub: []*Expr{c.relatedClass(), c.relatedClass()}}, false
	case 0:
		n := c.intn(2, 4, "baitn")
		e := &Expr{K: KChoice}
		for i := 0; i < n; i++ {
			e.Sub = append(e.Sub, one())
		}
		return e, false
	case 1:
		n := c.intn(2, 3, "baitn")
		e := &Expr{K: KSeq}
		null := true
		for i := 0; i < n; i++ {
			l := c.lit()
			null = null && len(l.Val) == 0
			e.Sub = append(e.Sub, l)
		}
		return e, null
	case 2:
		// nested choice
		in := &Expr{K: KChoice, Sub: []*Expr{one(), one()}}
		return &Expr{K: KChoice, Sub: []*Expr{one(), in, one()}}, false
	}
	// nested sequence
	in := &Expr{K: KSeq, Sub: []*Expr{c.consuming(), c.lit()}}
	return &Expr{K: KSeq, Sub: []*Expr{c.lit(), in}}, false
}

// lookaheadBait draws  &R R  /  !( R t ) R  /  &R ( t / R ) : a rule is evaluated inside a
// lookahead first and for real at the same offset afterwards (whatever the lookahead does to
// the parser besides restoring the position shows in the second evaluation - or, under
// Memoize, in its absence).
func (c *gen) lookaheadBait() (*Expr, bool, bool) {
	tail := c.names[c.ruleIdx+1:]
	if len(tail) == 0 {
		return nil, false, false
	}
	name := Pick(c.t, tail, "lookaheadrule")
	r := func() *Expr { return &Expr{K: KRef, Name: name} }
	n := c.nullable[name]
	switch c.intn(0, 2, "lookaheadkind") {
	case 0:
		return &Expr{K: KSeq, Sub: []*Expr{{K: KAnd, Sub: []*Expr{r()}}, r()}}, n, true
	case 1:
		return &Expr{K: KSeq, Sub: []*Expr{{K: KNot, Sub: []*Expr{{K: KSeq, Sub: []*Expr{r(), c.consuming()}}}}, r()}}, n, true
	}
	return &Expr{K: KSeq, Sub: []*Expr{{K: KAnd, Sub: []*Expr{r()}}, {K: KChoice, Sub: []*Expr{c.consuming(), r()}}}}, n, true
}

// shadowBait draws  l:t1 OP( l:t2 t3 ) {action} : the same label name bound in the enclosing
// sequence and inside the operand of a predicate / repetition / option, where the inner
// binding happens and the operand then fails or succeeds; the action reads the outer value.
func (c *gen) shadowBait() *Expr {
	name := c.label() // unique in the enclosing scope; bound again inside the operand's own scope
	inner := &Expr{K: KSeq, Sub: []*Expr{{K: KLabel, Name: name, Sub: []*Expr{c.consuming()}}, c.consuming()}}
	var op *Expr
	switch c.intn(0, 4, "shadowop") {
	case 0:
		op = &Expr{K: KNot, Sub: []*Expr{inner}}
	case 1:
		op = &Expr{K: KAnd, Sub: []*Expr{inner}}
	case 2:
		op = &Expr{K: KOpt, Sub: []*Expr{inner}}
	case 3:
		op = &Expr{K: KStar, Sub: []*Expr{inner}}
	default:
		op = &Expr{K: KNot, Sub: []*Expr{{K: KLabel, Name: name, Sub: []*Expr{c.consuming()}}}}
	}
	if !c.cfg.Preds && (op.K == KNot || op.K == KAnd) {
		op = &Expr{K: KOpt, Sub: []*Expr{inner}}
	}
	seq := &Expr{K: KSeq, Sub: []*Expr{{K: KLabel, Name: name, Sub: []*Expr{c.consuming()}}, op}}
	if c.chance(50, "shadowtail") {
		seq.Sub = append(seq.Sub, c.consuming())
	}
	return &Expr{K: KAction, ID: c.id(), Sub: []*Expr{seq}}
}

// nilLabelBait draws  ( l:t1 t2 {A} / l:NIL t1' {B} )  where NIL is an expression whose value
// is nil or empty ( t3? , &t , !t , t3* ) and t1' starts like t1: on "t1 + something else" the
// first alternative binds l and fails behind it, the second one binds the same name to nil -
// and its block must see nil, not what the abandoned alternative left behind.
func (c *gen) nilLabelBait() *Expr {
	t1 := c.consuming()
	t2 := c.consuming()
	var nilE *Expr
	switch c.intn(0, 3, "nilkind") {
	case 0:
		nilE = &Expr{K: KOpt, Sub: []*Expr{c.consuming()}}
	case 1:
		nilE = &Expr{K: KStar, Sub: []*Expr{c.consuming()}}
	case 2:
		nilE = &Expr{K: KNot, Sub: []*Expr{cloneTerminal(t2)}}
	default:
		nilE = &Expr{K: KAnd, Sub: []*Expr{cloneTerminal(t1)}}
	}
	if !c.cfg.Preds && (nilE.K == KNot || nilE.K == KAnd) {
		nilE = &Expr{K: KOpt, Sub: []*Expr{c.consuming()}}
	}
	save := c.labelN
	c.labelN = 0
	name := c.label()
	c.labelN = save
	a := &Expr{K: KAction, ID: c.id(), Sub: []*Expr{{K: KSeq, Sub: []*Expr{{K: KLabel, Name: name, Sub: []*Expr{t1}}, t2}}}}
	b := &Expr{K: KAction, ID: c.id(), Sub: []*Expr{{K: KSeq, Sub: []*Expr{{K: KLabel, Name: name, Sub: []*Expr{nilE}}, cloneTerminal(t1)}}}}
	return &Expr{K: KChoice, Sub: []*Expr{a, b}}
}

// cloneTerminal copies a literal, class or any matcher (no node is shared between two places
// of a grammar).
func cloneTerminal(e *Expr) *Expr {
	x := *e
	x.Val = append([]byte(nil), e.Val...)
	x.Chars = append([]rune(nil), e.Chars...)
	x.Ranges = append([]rune(nil), e.Ranges...)
	x.UClasses = append([]string(nil), e.UClasses...)
	if e.Val == nil {
		x.Val = nil
	}
	return &x
}

// statePredBait draws a predicate directly under ? (no sequence in between) whose operand
// changes the state and then matches or fails: ( !( #{..} t ) )?  ( &( #{..} t ) )?
func (c *gen) statePredBait() *Expr {
	if c.cfg.Profile != "leftrec" && c.chance(25, "dedentbait") {
		// (not in left-recursive grammars: a left-recursive rule reached again at an offset replays
		// its value, and this value depends on when it was computed)
		// ( &{k1 < n} #{incr k1} )* : a repetition whose body never consumes and is not the same
		// every time - it goes round until the predicate on the store says no (the idiom behind
		// implied closing tokens and dedents)
		body := &Expr{K: KSeq, Sub: []*Expr{
			{K: KAndCode, ID: c.id(), Lim: c.intn(1, 4, "dedentlim")},
			{K: KState, ID: c.id(), Ops: []StateOp{{Op: "incr", Key: "k1"}}}}}
		if c.chance(30, "dedentplus") {
			return &Expr{K: KPlus, Sub: []*Expr{body}}
		}
		return &Expr{K: KStar, Sub: []*Expr{body}}
	}
	operand := &Expr{K: KSeq, Sub: []*Expr{c.stateBlock(), c.consuming()}}
	if c.chance(30, "statepredtail") {
		operand.Sub = append(operand.Sub, c.stateBlock())
	}
	k := KNot
	if c.chance(40, "statepredand") {
		k = KAnd
	}
	if !c.cfg.Preds || c.chance(35, "statenopred") {
		// ( #{..} t u )? / ( #{..} t u )* : a sequence that changes the state with its first
		// expression and fails later, directly under ? or *
		operand.Sub = append(operand.Sub, c.consuming())
		if c.chance(50, "statestar") {
			return &Expr{K: KStar, Sub: []*Expr{operand}}
		}
		return &Expr{K: KOpt, Sub: []*Expr{operand}}
	}
	return &Expr{K: KOpt, Sub: []*Expr{{K: k, Sub: []*Expr{operand}}}}
}

// relatedClass draws a small non-inverted class from ranges that share end points.
func (c *gen) relatedClass() *Expr {
	pairs := [][2]rune{{'0', '1'}, {'0', '7'}, {'0', '9'}, {'a', 'c'}, {'a', 'f'}, {'a', 'z'}, {'A', 'F'}, {'A', 'Z'}, {'b', 'k'}}
	e := &Expr{K: KClass}
	// (three ranges / three Unicode classes: pigeon builds these slices by appending, which
	// leaves spare capacity exactly then - a shallow copy shares it)
	n := c.intn(1, 4, "relranges")
	if n == 4 {
		n = 3
	}
	for i := 0; i < n; i++ {
		p := Pick(c.t, pairs, "relrange")
		e.Ranges = append(e.Ranges, p[0], p[1])
	}
	if c.chance(30, "relchar") {
		e.Chars = append(e.Chars, c.rune_())
	}
	if c.cfg.UClasses && c.chance(20, "relucl") {
		for _, u := range []string{"Nd", "Lu", "Greek"}[:c.intn(1, 3, "nrelucl")] {
			e.UClasses = append(e.UClasses, u)
		}
	}
	return e
}

// altExpr draws a choice alternative: optionally a sequence with an action.
func (c *gen) altExpr(depth int, guarded bool) (*Expr, bool) {
	e, n := c.expr(depth, guarded)
	if c.cfg.Code && !c.noCode && c.chance(35, "altaction") {
		e = &Expr{K: KAction, ID: c.id(), Sub: []*Expr{e}}
	}
	return e, n
}

func (c *gen) seq(depth int, guarded bool) (*Expr, bool) {
	n := c.intn(2, 4, "nseq")
	e := &Expr{K: KSeq}
	null := true
	g := guarded
	for i := 0; i < n; i++ {
		var s *Expr
		var sn bool
		code := c.cfg.Code && !c.noCode
		switch {
		case code && !c.cfg.NoCodePred && c.chance(12, "codepred"):
			if c.chance(50, "andcode") {
				s = &Expr{K: KAndCode, ID: c.id()}
			} else {
				s = &Expr{K: KNotCode, ID: c.id()}
			}
			sn = true
		case c.cfg.StateBlocks && !c.noCode && c.chance(18, "stateblock"):
			s = c.stateBlock()
			sn = true
		case c.cfg.Throw && !c.noThrow && c.chance(c.throwChance(), "throw"):
			s = &Expr{K: KThrow, Name: c.flabel()}
			sn = true
		case c.cfg.Throw && !c.noThrow && depth < c.cfg.MaxDepth && c.chance(14, "siblingrecover"):
			s, sn = c.recover(depth+1, g)
		default:
			s, sn = c.expr(depth+1, g)
			if code && c.chance(40, "label") {
				s = &Expr{K: KLabel, Name: c.label(), Sub: []*Expr{s}}
			} else if code && c.chance(10, "subaction") {
				s = &Expr{K: KAction, ID: c.id(), Sub: []*Expr{s}}
			}
		}
		e.Sub = append(e.Sub, s)
		if !sn {
			null = false
			g = true
		}
	}
	return e, null
}

func (c *gen) flabel() string {
	if len(c.handled) > 0 && c.chance(85, "handledlabel") {
		return Pick(c.t, c.handled, "flabelh")
	}
	return Pick(c.t, []string{"F1", "F2", "F3", "G1", "G2"}, "flabel")
}

// Failure labels come in two tiers so that recovery expressions may themselves throw and
// contain recovery operators without ever forming a cycle (handlers are looked up
// dynamically, so lexical scoping cannot rule cycles out): an operator lists either F labels
// or G labels; the recovery expression of an F operator may throw G labels and may contain G
// operators; the recovery expression of a G operator is free of throws.

// richRec draws a recovery expression (for an F operator) that throws G labels or contains
// a G operator.
func (c *gen) richRec() (*Expr, bool) { return c.richRecFor("") }

// richRecFor prefers the given G label (one that an operator in force lists).
func (c *gen) richRecFor(prefer string) (*Expr, bool) {
	g := func() string {
		if prefer != "" && c.chance(60, "preferlabel") {
			return prefer
		}
		return Pick(c.t, []string{"G1", "G2"}, "glabel")
	}
	switch c.intn(0, 4, "richk") {
	case 0:
		return &Expr{K: KThrow, Name: g()}, true
	case 1:
		return &Expr{K: KSeq, Sub: []*Expr{c.consuming(), {K: KThrow, Name: g()}}}, true
	case 2:
		// a G operator inside the recovery expression, its guarded expression throws
		l := g()
		rec, _ := c.recExpr()
		return &Expr{K: KRecover, Labels: []string{l}, Sub: []*Expr{
			{K: KSeq, Sub: []*Expr{c.consuming(), {K: KThrow, Name: Pick(c.t, []string{l, "G1", "G2"}, "innerthrow")}}}, rec}}, true
	case 3:
		// a G operator that does not throw itself: it only pushes and pops a handler while the
		// recovery expression runs
		rec, _ := c.recExpr()
		a, _ := c.recExpr()
		return &Expr{K: KRecover, Labels: []string{g()}, Sub: []*Expr{a, rec}}, true
	}
	a, _ := c.recExpr()
	return &Expr{K: KChoice, Sub: []*Expr{{K: KSeq, Sub: []*Expr{c.consuming(), {K: KThrow, Name: g()}}}, a}}, true
}

func (c *gen) throwChance() int {
	if len(c.handled) > 0 {
		return 28
	}
	return 2
}

func (c *gen) stateBlock() *Expr {
	n := c.intn(1, 2, "nops")
	e := &Expr{K: KState, ID: c.id()}
	for i := 0; i < n; i++ {
		op := Pick(c.t, []string{"set", "incr", "incr", "del", "app", "app", "gincr"}, "op")
		so := StateOp{Op: op, Val: c.intn(0, 9, "opval")}
		switch op {
		case "app":
			so.Key = "l"
		case "gincr":
			so.Key = "g"
		default:
			so.Key = Pick(c.t, []string{"k1", "k2"}, "opkey")
		}
		e.Ops = append(e.Ops, so)
	}
	return e
}

// nestedRecover draws the shape ( ( item* //{li} recI ) //{lo} recO ) where the items throw
// the outer and the inner label in any order and number, and recO is a rich recovery
// expression: a throw handled by the operator that is not the innermost one in force, whose
// recovery expression throws again or pushes handlers of its own, followed by more throws.
func (c *gen) nestedRecover() (*Expr, bool) {
	lo := Pick(c.t, []string{"F1", "F2", "F3"}, "outerlabel")
	var li string
	for li == "" || li == lo {
		li = Pick(c.t, []string{"F1", "F2", "F3", "G1", "G2", "G1"}, "innerlabel")
	}
	item := func(label string) *Expr {
		var e *Expr = &Expr{K: KSeq, Sub: []*Expr{c.consuming(), {K: KThrow, Name: label}}}
		if c.cfg.Code && c.chance(40, "itemaction") {
			e = &Expr{K: KAction, ID: c.id(), Sub: []*Expr{e}}
		}
		return e
	}
	alts := []*Expr{item(lo), item(li)}
	if c.chance(40, "thirditem") {
		alts = append(alts, item(Pick(c.t, []string{lo, li, "G2", "F3"}, "thirdlabel")))
	}
	if c.cfg.Preds && c.chance(40, "predthrowitem") {
		// a throw under a lookahead: the handlers in force outside the predicate are in force
		// inside it ( !( t %{l} ) u  /  &( t %{l} ) u )
		pk := KNot
		if c.chance(40, "predthrowand") {
			pk = KAnd
		}
		alts = append(alts, &Expr{K: KSeq, Sub: []*Expr{{K: pk, Sub: []*Expr{{K: KSeq, Sub: []*Expr{c.consuming(), {K: KThrow, Name: Pick(c.t, []string{lo, li}, "predthrowlabel")}}}}}, c.consuming()}})
	}
	alts = append(alts, c.consuming())
	if c.chance(50, "itemorder") {
		alts[0], alts[1] = alts[1], alts[0]
	}
	body := &Expr{K: KStar, Sub: []*Expr{{K: KChoice, Sub: alts}}}
	saveC, saveT := c.noCode, c.noThrow
	c.noCode, c.noThrow = true, true
	var recI *Expr
	if li[0] == 'F' && c.chance(40, "innerrich") {
		recI, _ = c.richRec()
	} else {
		recI, _ = c.recExpr()
	}
	prefer := ""
	if li[0] == 'G' {
		prefer = li
	}
	recO, _ := c.richRecFor(prefer)
	c.noCode, c.noThrow = saveC, saveT
	inner := &Expr{K: KRecover, Labels: []string{li}, Sub: []*Expr{body, recI}}
	outer := &Expr{K: KRecover, Labels: []string{lo}, Sub: []*Expr{inner, recO}}
	if c.chance(50, "nestedtail") {
		return &Expr{K: KSeq, Sub: []*Expr{outer, c.consuming()}}, false
	}
	return outer, true
}

func (c *gen) recover(depth int, guarded bool) (*Expr, bool) {
	nl := c.intn(1, 2, "nflabels")
	labels := []string{}
	tierG := c.chance(25, "goperator")
	if c.forceLabel != "" {
		tierG = c.forceLabel[0] == 'G'
		labels = append(labels, c.forceLabel)
		c.forceLabel = ""
	}
	pool := []string{"F1", "F2", "F3"}
	if tierG {
		pool = []string{"G1", "G2"}
	}
	for i := 0; i < nl; i++ {
		l := Pick(c.t, pool, "hlabel")
		dup := false
		for _, x := range labels {
			dup = dup || x == l
		}
		if !dup {
			labels = append(labels, l)
		}
	}
	if c.chance(10, "duplabel") {
		// a label may be listed twice ( //{F1, F2, F1} ): the list is a set
		labels = append(labels, labels[0])
	}
	saveH := c.handled
	c.handled = append(append([]string{}, saveH...), labels...)
	c.inRecover++
	var e *Expr
	var en bool
	switch k := c.intn(0, 99, "guardedkind"); {
	case k < 30 && depth < c.cfg.MaxDepth:
		// a nested operator that shares a label: its handler is tried first, ours next
		c.forceLabel = labels[0]
		e, en = c.recover(depth+1, guarded)
	case k < 75:
		e, en = c.seq(depth+1, guarded)
	default:
		e, en = c.expr(depth+1, guarded)
	}
	c.inRecover--
	c.handled = saveH
	var rec *Expr
	rn := false
	if !tierG && c.chance(30, "richrecovery") {
		saveC, saveT := c.noCode, c.noThrow
		c.noCode, c.noThrow = true, true
		rec, rn = c.richRec()
		c.noCode, c.noThrow = saveC, saveT
	} else if len(c.recRules) > 0 && c.chance(50, "recrule") {
		n := Pick(c.t, c.recRules, "recname")
		rec = &Expr{K: KRef, Name: n}
		rn = c.nullable[n]
	} else {
		saveC, saveT := c.noCode, c.noThrow
		c.noCode, c.noThrow = true, true
		// recovery expressions are free of references to ordinary rules: they run wherever the
		// throw happens
		c.inlineRecCode = true
		rec, rn = c.recExpr()
		c.inlineRecCode = false
		c.noCode, c.noThrow = saveC, saveT
	}
	return &Expr{K: KRecover, Sub: []*Expr{e, rec}, Labels: labels}, en || rn
}

// recExpr draws a small expression for a recovery position: terminals, optionally under a
// label-free action (the builder gives the operator a scope of its own; at run time the block
// runs in the scope of the throw, so it may not take labels), optionally next to a reference
// to a dedicated recovery rule.
func (c *gen) recExpr() (*Expr, bool) {
	e, n := c.recExpr0()
	if c.cfg.Code && c.inlineRecCode && c.chance(30, "recinlineaction") {
		e = &Expr{K: KAction, ID: c.id(), Sub: []*Expr{e}}
	}
	if c.inlineRecCode && len(c.recRules) > 0 && c.chance(20, "recnestedref") {
		name := Pick(c.t, c.recRules, "recnestedname")
		if c.chance(50, "recnestedseq") {
			return &Expr{K: KSeq, Sub: []*Expr{{K: KRef, Name: name}, e}}, n && c.nullable[name]
		}
		return &Expr{K: KChoice, Sub: []*Expr{e, {K: KRef, Name: name}}}, n || c.nullable[name]
	}
	return e, n
}

func (c *gen) recExpr0() (*Expr, bool) {
	switch c.intn(0, 3, "reck") {
	case 0:
		a := c.consuming()
		return &Expr{K: KStar, Sub: []*Expr{a}}, true
	case 1:
		a, an := c.terminal()
		b, bn := c.terminal()
		return &Expr{K: KSeq, Sub: []*Expr{a, b}}, an && bn
	case 2:
		a, an := c.terminal()
		b, bn := c.terminal()
		return &Expr{K: KChoice, Sub: []*Expr{a, b}}, an || bn
	}
	return c.terminal()
}

func ruleNames(c *gen, nEntries, nHelpers int) (entries, helpers []string) {
	if c.cfg.NameStyle == 1 {
		// (Go keywords and predeclared identifiers are left out: a reference to such a rule is
		// reported as "identifier is a reserved word" by the front-end, so the grammar is not
		// an accepted one)
		pool := []string{"A", "A1", "A11", "A2", "R", "R1", "R12", "B", "B1", "Été", "Ω", "_x", "_", "Type", "Func", "Rule", "X9", "A111", "R2"}
		perm := rapid.Permutation(pool).Draw(c.t, "rulenames")
		for i := 0; i < nEntries; i++ {
			entries = append(entries, perm[i])
		}
		for i := 0; i < nHelpers; i++ {
			helpers = append(helpers, perm[nEntries+i])
		}
		return
	}
	for i := 1; i <= nEntries; i++ {
		entries = append(entries, fmt.Sprintf("E%d", i))
	}
	for i := 1; i <= nHelpers; i++ {
		helpers = append(helpers, fmt.Sprintf("H%d", i))
	}
	return
}

// GrammarGen is the rapid generator of well-formed grammars for a profile: no left
// recursion (references to equal-or-lower ranked rules only behind a consuming
// prefix), non-nullable repetition bodies (unless Diverging), labels unique per rule,
// recovery expressions free of code, labels and throws.
func GrammarGen(cfg GenConfig) *rapid.Generator[*Grammar] {
	return rapid.Custom(func(t *rapid.T) *Grammar {
		c := &gen{t: t, cfg: &cfg, g: &Grammar{Profile: cfg.Profile, Recv: cfg.Recv}, nullable: map[string]bool{}}
		nE := c.intn(cfg.MinEntries, cfg.MaxEntries, "nentries")
		nH := c.intn(cfg.MinHelpers, cfg.MaxHelpers, "nhelpers")
		entries, helpers := ruleNames(c, nE, nH)
		c.names = append(append([]string{}, entries...), helpers...)
		rules := make([]*Rule, len(c.names))
		nRec := 0
		if cfg.Throw {
			nRec = c.intn(1, 2, "nrec")
		}
		// dedicated recovery rules come last: terminal expressions with an optional action
		var recRules []*Rule
		for i := 0; i < nRec; i++ {
			name := fmt.Sprintf("Rec%d", i+1)
			c.noCode, c.noThrow = true, true
			e, n := c.recExpr()
			c.noCode, c.noThrow = false, false
			if cfg.Code && c.chance(60, "recaction") {
				e = &Expr{K: KAction, ID: c.id(), Sub: []*Expr{e}}
			}
			recRules = append(recRules, &Rule{Name: name, Expr: e})
			c.nullable[name] = n
			c.recRules = append(c.recRules, name)
		}
		nLeaves := 0
		if cfg.OptBait {
			nLeaves = 2
		}
		for i := len(c.names) - 1; i >= 0; i-- {
			c.ruleIdx = i
			c.labelN = 0
			var e *Expr
			var n bool
			if i >= len(c.names)-nLeaves {
				// leaf class rules (3 members so that the slice has spare capacity when copied)
				if i == len(c.names)-1 {
					// the last leaf always has three ranges (six runes in a slice of capacity eight)
					e = &Expr{K: KClass, Ranges: []rune{'0', '9', 'a', 'f', 'A', 'F'}}
					if c.chance(50, "leafranges2") {
						e = &Expr{K: KClass, Ranges: []rune{'a', 'c', '0', '1', 'A', 'B'}}
					}
				} else if c.chance(50, "leafrelated") {
					e = c.relatedClass()
				} else {
					e = &Expr{K: KClass, Chars: []rune{c.rune_(), c.rune_(), c.rune_()}}
				}
				c.classLeaves = append(c.classLeaves, c.names[i])
			} else if cfg.Throw && i < len(entries) && c.chance(30, "nestedrecover") {
				e, n = c.nestedRecover()
			} else if cfg.Code && c.chance(60, "ruleaction") {
				e, n = c.seq(1, false)
				e = &Expr{K: KAction, ID: c.id(), Sub: []*Expr{e}}
			} else if c.chance(30, "rulechoice") {
				na := c.intn(2, 3, "nruleAlts")
				e = &Expr{K: KChoice}
				for j := 0; j < na; j++ {
					a, an := c.scoped(func() (*Expr, bool) { return c.altExpr(1, false) })
					e.Sub = append(e.Sub, a)
					n = n || an
				}
			} else {
				e, n = c.expr(0, false)
			}
			r := &Rule{Name: c.names[i], Expr: e}
			if cfg.Display && c.chance(40, "display") {
				r.Display = Pick(t, []string{"friendly", "a b", "x\"y", "é", "100%d", "%s%v"}, "dname")
				if c.chance(15, "dnamerule") {
					// a display name spelled like the name of another rule (it is a text for
					// messages, not a name anything resolves)
					r.Display = Pick(t, c.names, "dnamerulename")
				}
			}
			rules[i] = r
			c.nullable[c.names[i]] = n
		}
		c.g.Rules = append(rules, recRules...)
		c.g.Entries = append([]string{}, entries...)
		if !cfg.Throw && !cfg.NoSpellings && c.chance(4, "barethrow") {
			// a throw in a grammar without any recovery operator: it fails like a mismatch
			thr := &Rule{Name: "Thr", Expr: &Expr{K: KChoice, Sub: []*Expr{
				{K: KSeq, Sub: []*Expr{c.consuming(), {K: KThrow, Name: "F1"}}}, c.consuming()}}}
			c.g.Rules = append(c.g.Rules, thr)
			entries = append(entries, "Thr")
			c.g.Entries = append(c.g.Entries, "Thr")
		}
		if cfg.Throw && !cfg.NoSpellings && c.chance(12, "reentrantrecover") {
			// RA = ( "[" RB? t? %{F} ) //{F} ra ; RB = ( RA "]"? ) //{F} rb : the operator of RA is
			// entered again while its guarded expression runs, with another operator for the same
			// label in between; the innermost handler in force is the one of the innermost entry
			lab := Pick(t, []string{"F1", "F2"}, "reentrantlabel")
			rec := func() *Expr {
				c.noCode, c.noThrow = true, true
				e, _ := c.recExpr()
				c.noCode, c.noThrow = false, false
				if cfg.Code && len(c.recRules) > 0 && c.chance(50, "reentrantrecrule") {
					return &Expr{K: KRef, Name: Pick(t, c.recRules, "reentrantrecname")}
				}
				return e
			}
			ra := &Rule{Name: "RA", Expr: &Expr{K: KRecover, Labels: []string{lab}, Sub: []*Expr{
				{K: KSeq, Sub: []*Expr{Lit("["), {K: KOpt, Sub: []*Expr{{K: KRef, Name: "RB"}}}, {K: KOpt, Sub: []*Expr{c.consuming()}}, {K: KThrow, Name: lab}}}, rec()}}}
			rb := &Rule{Name: "RB", Expr: &Expr{K: KRecover, Labels: []string{lab}, Sub: []*Expr{
				{K: KSeq, Sub: []*Expr{{K: KRef, Name: "RA"}, {K: KOpt, Sub: []*Expr{Lit("]")}}}}, rec()}}}
			c.g.Rules = append(c.g.Rules, ra, rb)
			entries = append(entries, "RA")
			c.g.Entries = append(c.g.Entries, "RA")
		}
		if cfg.StateBlocks && !cfg.NoSpellings && c.chance(10, "mutualstate") {
			// Grp = "(" Ent* Grp? ")" #{..} ; Ent = Itm "," ; Itm = Grp / t : the sequence of Ent
			// changes the state only through a reference to a rule that is mutually recursive with
			// the one that holds the block, and fails behind it when the comma is missing
			sb := c.stateBlock()
			sb.Ops = append(sb.Ops, StateOp{Op: "incr", Key: "k2"})
			grp := &Rule{Name: "Grp", Expr: &Expr{K: KSeq, Sub: []*Expr{Lit("("),
				{K: KStar, Sub: []*Expr{{K: KRef, Name: "Ent"}}}, {K: KOpt, Sub: []*Expr{{K: KRef, Name: "Grp"}}}, Lit(")"), sb}}}
			ent := &Rule{Name: "Ent", Expr: &Expr{K: KSeq, Sub: []*Expr{{K: KRef, Name: "Itm"}, Lit(",")}}}
			itm := &Rule{Name: "Itm", Expr: &Expr{K: KChoice, Sub: []*Expr{{K: KRef, Name: "Grp"}, c.consuming()}}}
			// (a rule in front of them refers to Grp from a sequence of its own: whatever is worked
			// out per rule is first asked for from there)
			doc := &Rule{Name: "GrpDoc", Expr: &Expr{K: KSeq, Sub: []*Expr{{K: KRef, Name: "Grp"}, {K: KNot, Sub: []*Expr{{K: KAny}}}}}}
			if c.chance(50, "mutualorder") {
				c.g.Rules = append(c.g.Rules, doc, itm, ent, grp)
			} else {
				c.g.Rules = append(c.g.Rules, doc, grp, ent, itm)
			}
			entries = append(entries, "Grp", "GrpDoc")
			c.g.Entries = append(c.g.Entries, "Grp", "GrpDoc")
		}
		bigKind := map[string]string{}
		if !cfg.NoScale && c.chance(10, "scale") {
			// big entry rules (scale.go)
			big := c.bigRules()
			if c.chance(40, "bigfirst") {
				// the big rules come first in the file (what the tool finds late in a big grammar -
				// the first state block, the first left-recursive rule - it still has to find)
				c.g.Rules = append(append([]*Rule{}, big...), c.g.Rules...)
			} else {
				c.g.Rules = append(c.g.Rules, big...)
			}
			for _, br := range big {
				c.nullable[br.Name] = br.Big == "star"
				if br.Big != "" {
					bigKind[br.Name] = br.Big
					entries = append(entries, br.Name)
					c.g.Entries = append(c.g.Entries, br.Name)
				}
			}
		}
		if cfg.Wrappers {
			for i, en := range entries {
				w := &Rule{Name: fmt.Sprintf("W%d", i+1), Expr: &Expr{K: KAction, ID: c.id(),
					Sub: []*Expr{{K: KLabel, Name: "v", Sub: []*Expr{{K: KRef, Name: en}}}}}}
				if cfg.NameStyle == 1 {
					w.Name = "W" + en
				}
				w.Big = bigKind[en]
				c.g.Rules = append(c.g.Rules, w)
				c.g.Entries = append(c.g.Entries, w.Name)
			}
		}
		if !cfg.NoSpellings {
			// Loop = ( E1 / E2 / . )* : an entry that works its way through any input, trying the
			// other entries at every offset (long inputs, see C06)
			alts := &Expr{K: KChoice}
			for _, en := range entries {
				if !c.nullable[en] && len(alts.Sub) < 3 {
					alts.Sub = append(alts.Sub, &Expr{K: KRef, Name: en})
				}
			}
			var loop *Expr
			if cfg.Profile == "errors" {
				// (a parse that fails far into a long input: the samples never hold a 'z')
				alts.Sub = append(alts.Sub, &Expr{K: KClass, Chars: []rune{'z'}, Inv: true})
				loop = &Expr{K: KSeq, Sub: []*Expr{{K: KStar, Sub: []*Expr{alts}}, {K: KLit, Val: []byte("z")}}}
			} else {
				alts.Sub = append(alts.Sub, &Expr{K: KAny})
				loop = &Expr{K: KStar, Sub: []*Expr{alts}}
			}
			if len(alts.Sub) == 1 {
				// (every entry is nullable: the body is the single-rune alternative alone)
				*alts = *alts.Sub[0]
			}
			c.g.Rules = append(c.g.Rules, &Rule{Name: "Loop", Expr: loop})
			c.g.Entries = append(c.g.Entries, "Loop")
		}
		c.g.Pkg = "p"
		c.g.IndirectState = cfg.StateBlocks && c.chance(30, "indirectstate")
		if !cfg.NoSpellings && len(c.g.Rules) > 1 && c.chance(10, "decoyrule") {
			c.g.Decoy = c.g.Rules[c.intn(1, len(c.g.Rules)-1, "decoyidx")].Name
		}
		c.g.Analyze()
		if err := c.g.Validate(); err != nil {
			panic("gspec generator bug: " + err.Error())
		}
		return c.g
	})
}

func min(a, b int) int {
	if a < b {
		return a
	}
	return b
}
