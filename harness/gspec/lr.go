package gspec

import (
	"fmt"

	"pgregory.net/rapid"
)

// LRGrammarGen draws grammars built from directly left-recursive rules
//
//	Li <- Li t1 / ... / Li tn / b1 / ... / bm        (every ti consumes input)
//
// nested like expr/term/factor, optionally with one indirect cycle Li <- Vi t / b ;
// Vi <- Li u, with arbitrary non-left-recursive operand expressions (labels, actions,
// predicates, optionally state blocks). Recursive alternatives come first (with the bases
// first the seed could never grow: that is PEG ordered choice, not a defect).
func LRGrammarGen(stateful bool) *rapid.Generator[*Grammar] {
	return rapid.Custom(func(t *rapid.T) *Grammar {
		cfg := Profile("codeblocks")
		cfg.Profile = "leftrec"
		cfg.StateBlocks = stateful
		cfg.Display = true
		cfg.MaxDepth = 3
		c := &gen{t: t, cfg: &cfg, g: &Grammar{Profile: "leftrec"}, nullable: map[string]bool{}}
		levels := c.intn(1, 3, "lrlevels")
		nH := c.intn(1, 3, "lrhelpers")
		var lnames, hnames []string
		for i := 1; i <= levels; i++ {
			lnames = append(lnames, fmt.Sprintf("L%d", i))
		}
		for i := 1; i <= nH; i++ {
			hnames = append(hnames, fmt.Sprintf("H%d", i))
		}
		// helper rules first (they may reference each other forward and, guarded, any rule)
		c.names = append(append([]string{}, lnames...), hnames...)
		rules := map[string]*Rule{}
		for i := len(c.names) - 1; i >= levels; i-- {
			c.ruleIdx = i
			c.labelN = 0
			e, n := c.expr(1, false)
			if n {
				// helpers used as operands should consume
				e = &Expr{K: KSeq, Sub: []*Expr{c.consuming(), e}}
				n = false
			}
			if c.chance(50, "helperaction") {
				e = &Expr{K: KAction, ID: c.id(), Sub: []*Expr{e}}
			}
			rules[c.names[i]] = &Rule{Name: c.names[i], Expr: e}
			c.nullable[c.names[i]] = n
		}
		var extra []*Rule
		for li := levels - 1; li >= 0; li-- {
			c.ruleIdx = li
			c.labelN = 0
			name := lnames[li]
			next := func() *Expr {
				// operand: the next level, a helper, or a parenthesised top level
				k := c.intn(0, 9, "operand")
				switch {
				case li+1 < levels && k < 6:
					return &Expr{K: KRef, Name: lnames[li+1]}
				case k < 8 && len(hnames) > 0:
					return &Expr{K: KRef, Name: Pick(t, hnames, "ophelper")}
				case k == 8:
					return &Expr{K: KSeq, Sub: []*Expr{Lit("("), {K: KRef, Name: lnames[0]}, Lit(")")}}
				}
				return c.consuming()
			}
			via := ""
			if c.chance(30, "indirect") {
				via = fmt.Sprintf("V%d", li+1)
				if c.chance(12, "nonleaderentry") {
					via = fmt.Sprintf("K%d", li+1) // sorts before Li: Li is entered but is not the leader (recorded finding)
				}
			}
			recName := name
			if via != "" {
				recName = via
			}
			choice := &Expr{K: KChoice}
			lr := &LRInfo{Via: via}
			nT := c.intn(1, 3, "ntails")
			for i := 0; i < nT; i++ {
				rec := &Expr{K: KRef, Name: recName}
				var first *Expr = rec
				if c.chance(70, "reclabel") {
					first = &Expr{K: KLabel, Name: c.label(), Sub: []*Expr{rec}}
				}
				seq := &Expr{K: KSeq, Sub: []*Expr{first}}
				// operator: a consuming terminal, then operands
				seq.Sub = append(seq.Sub, c.consuming())
				if c.cfg.StateBlocks && c.chance(30, "tailstate") {
					seq.Sub = append(seq.Sub, c.stateBlock())
				}
				if c.chance(15, "tailpred") {
					seq.Sub = append(seq.Sub, &Expr{K: KAndCode, ID: c.id()})
				}
				nOp := c.intn(0, 2, "noperands")
				for j := 0; j < nOp; j++ {
					op := next()
					if c.chance(60, "oplabel") {
						op = &Expr{K: KLabel, Name: c.label(), Sub: []*Expr{op}}
					}
					seq.Sub = append(seq.Sub, op)
				}
				var alt *Expr = seq
				if c.chance(75, "tailaction") {
					alt = &Expr{K: KAction, ID: c.id(), Sub: []*Expr{seq}}
				}
				lr.Tails = append(lr.Tails, len(choice.Sub))
				choice.Sub = append(choice.Sub, alt)
				c.labelN = 0
			}
			nB := c.intn(1, 2, "nbases")
			nullableLevel := false
			for i := 0; i < nB; i++ {
				var b *Expr
				if c.cfg.StateBlocks && c.chance(30, "basestate") {
					b = &Expr{K: KSeq, Sub: []*Expr{c.stateBlock(), next()}}
				} else {
					b = next()
				}
				if i == nB-1 && c.chance(12, "nullablebase") {
					// the last base may match the empty string: A <- A t / b? (the first, empty seed
					// is still a seed)
					nullableLevel = true
					switch c.intn(0, 2, "nullablekind") {
					case 0:
						b = &Expr{K: KOpt, Sub: []*Expr{b}}
					case 1:
						b = &Expr{K: KStar, Sub: []*Expr{c.consuming()}}
					default:
						b = &Expr{K: KLit, Val: []byte{}}
					}
				}
				if c.chance(50, "baseaction") {
					if c.chance(50, "baselabel") {
						b = &Expr{K: KLabel, Name: c.label(), Sub: []*Expr{b}}
					}
					b = &Expr{K: KAction, ID: c.id(), Sub: []*Expr{b}}
				}
				lr.Bases = append(lr.Bases, len(choice.Sub))
				choice.Sub = append(choice.Sub, b)
				c.labelN = 0
			}
			r := &Rule{Name: name, Expr: choice, LR: lr}
			if c.chance(25, "lrdisplay") {
				r.Display = "level " + name
			}
			rules[name] = r
			c.nullable[name] = nullableLevel
			if via != "" {
				// Vi <- Li u   (u possibly empty), optionally with an action
				var ve *Expr = &Expr{K: KRef, Name: name}
				if c.chance(50, "vialabel") {
					ve = &Expr{K: KLabel, Name: "r", Sub: []*Expr{ve}}
				}
				if c.chance(50, "viatail") {
					ve = &Expr{K: KSeq, Sub: []*Expr{ve, c.consuming()}}
				}
				if c.chance(50, "viaaction") {
					ve = &Expr{K: KAction, ID: c.id(), Sub: []*Expr{ve}}
				}
				extra = append(extra, &Rule{Name: via, Expr: ve})
			}
		}
		g := c.g
		for _, n := range lnames {
			g.Rules = append(g.Rules, rules[n])
		}
		for _, n := range hnames {
			g.Rules = append(g.Rules, rules[n])
		}
		g.Rules = append(g.Rules, extra...)
		g.Entries = append([]string{}, lnames...)
		for i, n := range lnames {
			w := &Rule{Name: fmt.Sprintf("W%d", i+1), Expr: &Expr{K: KAction, ID: c.id(),
				Sub: []*Expr{{K: KLabel, Name: "v", Sub: []*Expr{{K: KRef, Name: n}}}}}}
			g.Rules = append(g.Rules, w)
			g.Entries = append(g.Entries, w.Name)
		}
		g.Pkg = "p"
		if len(g.Rules) > 1 && c.chance(15, "decoyrule") {
			g.Decoy = g.Rules[c.intn(1, len(g.Rules)-1, "decoyidx")].Name
			if len(lnames) > 1 && c.chance(70, "decoylevel") {
				// preferably a left-recursive level that is not the first rule
				g.Decoy = lnames[c.intn(1, len(lnames)-1, "decoylevelidx")]
			}
		}
		g.Analyze()
		if err := g.Validate(); err != nil {
			panic("gspec LR generator bug: " + err.Error())
		}
		return g
	})
}

// NonLeaderEntry reports whether the grammar contains an indirect cycle that is entered
// through a rule that is not its leader (pigeon picks the smallest name of the cycle).
func (g *Grammar) NonLeaderEntry() bool {
	for _, r := range g.Rules {
		if r.LR != nil && r.LR.Via != "" && r.LR.Via < r.Name {
			return true
		}
	}
	return false
}
