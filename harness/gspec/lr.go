package gspec

import (
	"fmt"

	"pgregory.net/rapid"
)

// LRGrammarGen draws grammars built from directly left-recursive rules
//
//	Li <- Li t1 / ... / Li tn / b1 / ... / bm        (every ti consumes input)
//
// nested like expr/term/factor, optionally with one indirect cycle Li <- Vi t / b ;
// Vi <- Li u, with arbitrary non-left-recursive operand expressions (labels, actions,
// predicates, optionally state blocks). Recursive alternatives come first (with the bases
// first the seed could never grow: that is PEG ordered choice, not a defect).
func LRGrammarGen(stateful bool) *rapid.Generator[*Grammar] { return lrGrammarGen(stateful, false) }

// LRThrowGrammarGen draws left-recursive grammars with throw / recover: operands that throw
// ( t / %{F} ), recovery operators in the helper rules, and entry rules that reach a
// left-recursive level under recovery operators - also the same level at the same offset
// under two different operators ( ( L //{F1} r1 ) t1 / ( L //{F1} r2 ) t2 ).
func LRThrowGrammarGen() *rapid.Generator[*Grammar] { return lrGrammarGen(false, true) }

func lrGrammarGen(stateful, throw bool) *rapid.Generator[*Grammar] {
	return rapid.Custom(func(t *rapid.T) *Grammar {
		cfg := Profile("codeblocks")
		cfg.Profile = "leftrec"
		cfg.StateBlocks = stateful
		cfg.Display = true
		cfg.MaxDepth = 3
		cfg.Throw = throw
		c := &gen{t: t, cfg: &cfg, g: &Grammar{Profile: "leftrec"}, nullable: map[string]bool{}}
		var recRules []*Rule
		if throw {
			// dedicated recovery rules (terminal expressions with an optional action)
			for i := 0; i < 2; i++ {
				name := fmt.Sprintf("Rec%d", i+1)
				c.noCode, c.noThrow = true, true
				e, n := c.recExpr()
				c.noCode, c.noThrow = false, false
				if c.chance(60, "recaction") {
					e = &Expr{K: KAction, ID: c.id(), Sub: []*Expr{e}}
				}
				recRules = append(recRules, &Rule{Name: name, Expr: e})
				c.nullable[name] = n
				c.recRules = append(c.recRules, name)
			}
		}
		levels := c.intn(1, 3, "lrlevels")
		nH := c.intn(1, 3, "lrhelpers")
		var lnames, hnames []string
		for i := 1; i <= levels; i++ {
			lnames = append(lnames, fmt.Sprintf("L%d", i))
		}
		for i := 1; i <= nH; i++ {
			hnames = append(hnames, fmt.Sprintf("H%d", i))
		}
		// helper rules first (they may reference each other forward and, guarded, any rule)
		c.names = append(append([]string{}, lnames...), hnames...)
		rules := map[string]*Rule{}
		for i := len(c.names) - 1; i >= levels; i-- {
			c.ruleIdx = i
			c.labelN = 0
			e, n := c.expr(1, false)
			if n {
				// helpers used as operands should consume
				e = &Expr{K: KSeq, Sub: []*Expr{c.consuming(), e}}
				n = false
			}
			if c.chance(50, "helperaction") {
				e = &Expr{K: KAction, ID: c.id(), Sub: []*Expr{e}}
			}
			rules[c.names[i]] = &Rule{Name: c.names[i], Expr: e}
			c.nullable[c.names[i]] = n
		}
		var extra []*Rule
		for li := levels - 1; li >= 0; li-- {
			c.ruleIdx = li
			c.labelN = 0
			name := lnames[li]
			var next func() *Expr
			next0 := func() *Expr { return next() }
			if throw {
				// a quarter of the operands may throw instead: ( operand / %{F} )
				next0 = func() *Expr {
					op := next()
					if c.chance(25, "throwoperand") {
						return &Expr{K: KChoice, Sub: []*Expr{op, {K: KThrow, Name: Pick(t, []string{"F1", "F2"}, "operandlabel")}}}
					}
					return op
				}
			}
			next = func() *Expr {
				// operand: the next level, a helper, or a parenthesised top level
				k := c.intn(0, 9, "operand")
				switch {
				case li+1 < levels && k < 6:
					return &Expr{K: KRef, Name: lnames[li+1]}
				case k < 8 && len(hnames) > 0:
					return &Expr{K: KRef, Name: Pick(t, hnames, "ophelper")}
				case k == 8:
					return &Expr{K: KSeq, Sub: []*Expr{Lit("("), {K: KRef, Name: lnames[0]}, Lit(")")}}
				}
				return c.consuming()
			}
			via := ""
			if c.chance(30, "indirect") {
				via = fmt.Sprintf("V%d", li+1)
				if c.chance(12, "nonleaderentry") {
					via = fmt.Sprintf("K%d", li+1) // sorts before Li: Li is entered but is not the leader (recorded finding)
				}
			}
			recName := name
			if via != "" {
				recName = via
			}
			choice := &Expr{K: KChoice}
			lr := &LRInfo{Via: via}
			nT := c.intn(1, 3, "ntails")
			mixed := via != "" && c.chance(30, "mixedrecursion")
			for i := 0; i < nT; i++ {
				rec := &Expr{K: KRef, Name: recName}
				if mixed && i == 0 && nT > 1 {
					// the first tail recurses directly, the others through the via rule
					// ( L <- L t / V u / b ; V <- L w ): the rule that is on every cycle is L
					rec = &Expr{K: KRef, Name: name}
				}
				var first *Expr = rec
				if c.chance(70, "reclabel") {
					first = &Expr{K: KLabel, Name: c.label(), Sub: []*Expr{rec}}
				}
				seq := &Expr{K: KSeq, Sub: []*Expr{first}}
				// operator: a consuming terminal, then operands
				seq.Sub = append(seq.Sub, c.consuming())
				tailState := c.cfg.StateBlocks && c.chance(40, "tailstate")
				if tailState {
					// ( L t #{..} operand ): the block runs, the operand may still fail - in the final,
					// discarded attempt too (a dangling operator)
					sb := c.stateBlock()
					if c.chance(40, "tailstateapp") {
						// a value changed in place (the Cloner list)
						sb.Ops = append(sb.Ops, StateOp{Op: "app", Key: "l", Val: c.intn(0, 9, "tailappval")})
					}
					seq.Sub = append(seq.Sub, sb)
				}
				if c.chance(15, "tailpred") {
					seq.Sub = append(seq.Sub, &Expr{K: KAndCode, ID: c.id()})
				}
				nOp := c.intn(0, 2, "noperands")
				if tailState && nOp == 0 {
					nOp = 1
				}
				for j := 0; j < nOp; j++ {
					op := next0()
					if c.chance(60, "oplabel") {
						op = &Expr{K: KLabel, Name: c.label(), Sub: []*Expr{op}}
					}
					seq.Sub = append(seq.Sub, op)
				}
				if nOp > 0 && c.chance(30, "tailend") {
					// a closing terminal behind the operands ( L t M ";" ): the alternative can fail
					// after a nested left-recursive operand has matched
					seq.Sub = append(seq.Sub, c.consuming())
				}
				var alt *Expr = seq
				if c.chance(75, "tailaction") {
					alt = &Expr{K: KAction, ID: c.id(), Sub: []*Expr{seq}}
				}
				lr.Tails = append(lr.Tails, len(choice.Sub))
				choice.Sub = append(choice.Sub, alt)
				c.labelN = 0
			}
			nB := c.intn(1, 2, "nbases")
			nullableLevel := false
			for i := 0; i < nB; i++ {
				var b *Expr
				if c.cfg.StateBlocks && c.chance(30, "basestate") {
					b = &Expr{K: KSeq, Sub: []*Expr{c.stateBlock(), next()}}
				} else {
					b = next0()
				}
				if i == nB-1 && c.chance(12, "nullablebase") {
					// the last base may match the empty string: A <- A t / b? (the first, empty seed
					// is still a seed)
					nullableLevel = true
					switch c.intn(0, 2, "nullablekind") {
					case 0:
						b = &Expr{K: KOpt, Sub: []*Expr{b}}
					case 1:
						b = &Expr{K: KStar, Sub: []*Expr{c.consuming()}}
					default:
						b = &Expr{K: KLit, Val: []byte{}}
					}
				}
				if c.chance(50, "baseaction") {
					if c.chance(50, "baselabel") {
						b = &Expr{K: KLabel, Name: c.label(), Sub: []*Expr{b}}
					}
					b = &Expr{K: KAction, ID: c.id(), Sub: []*Expr{b}}
				}
				lr.Bases = append(lr.Bases, len(choice.Sub))
				choice.Sub = append(choice.Sub, b)
				c.labelN = 0
			}
			r := &Rule{Name: name, Expr: choice, LR: lr}
			if c.chance(25, "lrdisplay") {
				r.Display = "level " + name
			}
			rules[name] = r
			c.nullable[name] = nullableLevel
			if via != "" {
				// Vi <- Li u   (u possibly empty), optionally with an action
				var ve *Expr = &Expr{K: KRef, Name: name}
				if c.chance(50, "vialabel") {
					ve = &Expr{K: KLabel, Name: "r", Sub: []*Expr{ve}}
				}
				if c.chance(50, "viatail") {
					ve = &Expr{K: KSeq, Sub: []*Expr{ve, c.consuming()}}
				}
				if c.chance(50, "viaaction") {
					ve = &Expr{K: KAction, ID: c.id(), Sub: []*Expr{ve}}
				}
				extra = append(extra, &Rule{Name: via, Expr: ve})
			}
		}
		g := c.g
		for _, n := range lnames {
			g.Rules = append(g.Rules, rules[n])
		}
		for _, n := range hnames {
			g.Rules = append(g.Rules, rules[n])
		}
		g.Rules = append(g.Rules, extra...)
		g.Rules = append(g.Rules, recRules...)
		g.Entries = append([]string{}, lnames...)
		if throw {
			// X1 = ( Li //{F..} r ) t?        X2 = ( Li //{F1} r1 ) t1 / ( Li //{F1,F2} r2 ) t2?
			rec := func() *Expr {
				if c.chance(50, "entryrecrule") {
					return &Expr{K: KRef, Name: Pick(t, c.recRules, "entryrecname")}
				}
				c.noCode, c.noThrow = true, true
				e, _ := c.recExpr()
				c.noCode, c.noThrow = false, false
				return e
			}
			guarded := func(labels ...string) *Expr {
				return &Expr{K: KRecover, Labels: labels, Sub: []*Expr{{K: KRef, Name: Pick(t, lnames, "guardedlevel")}, rec()}}
			}
			x1 := &Expr{K: KSeq, Sub: []*Expr{guarded("F1", "F2"), {K: KOpt, Sub: []*Expr{c.consuming()}}}}
			lv := Pick(t, lnames, "twicelevel")
			a := &Expr{K: KRecover, Labels: []string{"F1"}, Sub: []*Expr{{K: KRef, Name: lv}, rec()}}
			b := &Expr{K: KRecover, Labels: []string{"F1", "F2"}, Sub: []*Expr{{K: KRef, Name: lv}, rec()}}
			x2 := &Expr{K: KChoice, Sub: []*Expr{{K: KSeq, Sub: []*Expr{a, c.consuming()}}, {K: KSeq, Sub: []*Expr{b, {K: KOpt, Sub: []*Expr{c.consuming()}}}}}}
			g.Rules = append(g.Rules, &Rule{Name: "X1", Expr: x1}, &Rule{Name: "X2", Expr: x2})
			lnames = append(lnames, "X1", "X2")
			g.Entries = append(g.Entries, "X1", "X2")
		}
		if c.chance(30, "lookaheadentry") {
			// P1 = !( Li t ) ( Li / t ) : the same level at the same offset inside and outside a
			// negative lookahead
			lv := Pick(t, lnames[:levels], "lookaheadlevel")
			p1 := &Expr{K: KSeq, Sub: []*Expr{
				{K: KNot, Sub: []*Expr{{K: KSeq, Sub: []*Expr{{K: KRef, Name: lv}, c.consuming()}}}},
				{K: KChoice, Sub: []*Expr{{K: KRef, Name: lv}, c.consuming()}}}}
			g.Rules = append(g.Rules, &Rule{Name: "P1", Expr: p1})
			lnames = append(lnames, "P1")
			g.Entries = append(g.Entries, "P1")
		}
		for i, n := range lnames {
			w := &Rule{Name: fmt.Sprintf("W%d", i+1), Expr: &Expr{K: KAction, ID: c.id(),
				Sub: []*Expr{{K: KLabel, Name: "v", Sub: []*Expr{{K: KRef, Name: n}}}}}}
			g.Rules = append(g.Rules, w)
			g.Entries = append(g.Entries, w.Name)
		}
		g.Pkg = "p"
		if len(g.Rules) > 1 && c.chance(15, "decoyrule") {
			g.Decoy = g.Rules[c.intn(1, len(g.Rules)-1, "decoyidx")].Name
			if len(lnames) > 1 && c.chance(70, "decoylevel") {
				// preferably a left-recursive level that is not the first rule
				g.Decoy = lnames[c.intn(1, len(lnames)-1, "decoylevelidx")]
			}
		}
		g.Analyze()
		if err := g.Validate(); err != nil {
			panic("gspec LR generator bug: " + err.Error())
		}
		return g
	})
}

// directlyRecursive reports whether some recursive alternative of the rule starts with a
// reference to the rule itself.
func directlyRecursive(r *Rule) bool {
	for _, i := range r.LR.Tails {
		e := r.Expr.Sub[i]
		for e.K == KAction || e.K == KLabel || e.K == KSeq {
			e = e.Sub[0]
		}
		if e.K == KRef && e.Name == r.Name {
			return true
		}
	}
	return false
}

// NonLeaderEntry reports whether the grammar contains an indirect cycle that is entered
// through a rule that is not its leader (pigeon picks the smallest name of the cycle).
func (g *Grammar) NonLeaderEntry() bool {
	for _, r := range g.Rules {
		if r.LR != nil && r.LR.Via != "" && r.LR.Via < r.Name && !directlyRecursive(r) {
			// (a rule that also recurses directly is on a cycle of its own: it is the only rule on
			// every cycle, hence the leader whatever the names)
			return true
		}
	}
	return false
}
