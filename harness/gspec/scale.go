package gspec

import (
	"fmt"
	"strings"
)

// Scale: one grammar in ten (of every profile that asks for it) gets one or two *big* entry
// rules whose size crosses the usual thresholds of tables, counters and pre-sized buffers
// (64, 128, 256 of something; literals and inputs of several hundred to several thousand
// bytes; hundreds of rules; a rule stack hundreds of frames deep). Their shape is plain -
// what is unusual is only how much of it there is - so that every check treats them like
// any other entry rule: the reference interpreter evaluates them by definition.
//
//	BigChoice  "k000" / "k001" / ... (66, 130 or 258 alternatives; every 16th with an action)
//	BigSeq     l0:[abc] l1:[abc] ... (66, 130 or 258 labelled items, one action over all labels)
//	BigLit     one literal of 70, 300, 1100 or 4200 bytes (ignore-case every other time)
//	BigClass   [ ... ]+ with 70, 140 or 300 member runes and 20 ranges
//	BigChain   Ch000 = "a" Ch001 / "b" ; ... ; ChN = "b"  (66 or 130 rules, entered to full depth)
//	BigStar    ( "ab" / [0-9] / "\n" )* - an input of up to 9000 bytes, hundreds of lines, long lines
//
// Rule.Big marks them (and their wrappers): the input sampler lifts its size limits for them.

func (c *gen) bigRules() []*Rule {
	kinds := []string{"choice", "seq", "lit", "class", "chain", "star"}
	n := 1 + U(c.t, 2, "nbig")
	var out []*Rule
	used := map[string]bool{}
	for i := 0; i < n; i++ {
		k := Pick(c.t, kinds, "bigkind")
		if used[k] {
			continue
		}
		used[k] = true
		size := Pick(c.t, []int{66, 130, 258}, "bigsize")
		switch k {
		case "choice":
			e := &Expr{K: KChoice}
			for j := 0; j < size; j++ {
				var a *Expr = &Expr{K: KLit, Val: []byte(fmt.Sprintf("k%03d", j))}
				if c.cfg.Code && j%16 == 15 {
					a = &Expr{K: KAction, ID: c.id(), Sub: []*Expr{a}}
				}
				e.Sub = append(e.Sub, a)
			}
			out = append(out, &Rule{Name: "BigChoice", Expr: e, Big: k})
		case "seq":
			e := &Expr{K: KSeq}
			for j := 0; j < size; j++ {
				var it *Expr = &Expr{K: KClass, Chars: []rune{'a', 'b', 'c'}}
				if j%7 == 3 {
					it = &Expr{K: KLit, Val: []byte("é")}
				}
				if c.cfg.Code {
					it = &Expr{K: KLabel, Name: fmt.Sprintf("m%d", j), Sub: []*Expr{it}}
				}
				e.Sub = append(e.Sub, it)
			}
			if c.cfg.Code {
				e = &Expr{K: KAction, ID: c.id(), Sub: []*Expr{e}}
			}
			out = append(out, &Rule{Name: "BigSeq", Expr: e, Big: k})
		case "lit":
			ln := Pick(c.t, []int{70, 300, 1100, 4200}, "biglitlen")
			unit := "ab0 é_Bk1c"
			v := strings.Repeat(unit, ln/len(unit)+1)[:ln]
			for len(v) > 0 && v[len(v)-1] >= 0x80 { // do not cut a rune in two
				v = v[:len(v)-1]
			}
			e := &Expr{K: KLit, Val: []byte(v), IC: c.cfg.ICLit && c.chance(50, "biglitic")}
			out = append(out, &Rule{Name: "BigLit", Expr: e, Big: k})
		case "class":
			nm := Pick(c.t, []int{70, 140, 300}, "bigclassn")
			cl := &Expr{K: KClass}
			for j := 0; j < nm; j++ {
				// Latin Extended-A/B, no case pairs folded into ASCII, plus a few ASCII members
				cl.Chars = append(cl.Chars, rune(0x100+2*j))
			}
			cl.Chars = append(cl.Chars, 'a', '0', '_')
			for j := 0; j < 20; j++ {
				lo := rune(0x4e00 + 16*j)
				cl.Ranges = append(cl.Ranges, lo, lo+7)
			}
			e := &Expr{K: KPlus, Sub: []*Expr{cl}}
			out = append(out, &Rule{Name: "BigClass", Expr: e, Big: k})
		case "chain":
			if size > 130 {
				// (-optimize-grammar inlines a chain link by link and walks the whole grammar after
				// every step: 23 s for 258 links, 6 s for 130)
				size = 130
			}
			for j := 0; j < size; j++ {
				name := fmt.Sprintf("Ch%03d", j)
				var e *Expr
				if j == size-1 {
					e = &Expr{K: KLit, Val: []byte("b")}
				} else {
					e = &Expr{K: KChoice, Sub: []*Expr{
						{K: KSeq, Sub: []*Expr{{K: KLit, Val: []byte("a")}, {K: KRef, Name: fmt.Sprintf("Ch%03d", j+1)}}},
						{K: KLit, Val: []byte("b")}}}
				}
				r := &Rule{Name: name, Expr: e}
				if j == 0 {
					r.Big = k
				}
				out = append(out, r)
			}
		case "star":
			e := &Expr{K: KStar, Sub: []*Expr{{K: KChoice, Sub: []*Expr{
				{K: KLit, Val: []byte("ab")},
				{K: KClass, Ranges: []rune{'0', '9'}},
				{K: KLit, Val: []byte("\n")}}}}}
			out = append(out, &Rule{Name: "BigStar", Expr: e, Big: k})
		}
	}
	return out
}

// sampleBig draws an input for a big rule (kind as in Rule.Big): the sizes are the point, so
// nothing is truncated; a third of the samples get one edit.
func (s *sampler) sampleBig(r *Rule) {
	e := r.Expr
	for e.K == KAction || e.K == KLabel {
		e = e.Sub[0]
	}
	if e.K == KRef { // a wrapper W = v:Big {..}
		if t := s.g.Rule(e.Name); t != nil && t.Big != "" {
			s.sampleBig(t)
			return
		}
	}
	s.maxNodes, s.maxOut, s.maxDepth = 1 << 20, 1 << 20, 1 << 20
	switch r.Big {
	case "star":
		// up to 9000 bytes: hundreds of short lines or a few very long ones
		target := Pick(s.t, []int{300, 1100, 4200, 9000}, "bigstarlen")
		longLines := U(s.t, 2, "longlines") == 0
		for len(s.out) < target {
			switch k := U(s.t, 8, "starpiece"); {
			case k < 3:
				s.out = append(s.out, "ab"...)
			case k < 7 || longLines:
				s.out = append(s.out, byte('0'+U(s.t, 10, "digit")))
			default:
				s.out = append(s.out, '\n')
			}
		}
	case "choice":
		// half of the time an alternative next to a power of two (the 64th, the 128th, ...)
		i := U(s.t, len(e.Sub), "bigalt")
		if U(s.t, 2, "bigaltedge") == 0 {
			var edges []int
			for _, p := range []int{64, 128, 256} {
				for d := -2; d <= 1; d++ {
					if p+d < len(e.Sub) {
						edges = append(edges, p+d)
					}
				}
			}
			i = Pick(s.t, edges, "bigaltedgeidx")
		}
		s.walk(e.Sub[i], 0)
	case "chain":
		// mostly to the full depth: the choice picks the recursive alternative when deep
		s.walk(e, 9)
	default:
		s.walk(e, 0)
	}
	if U(s.t, 3, "bigedit") == 0 {
		s.out = edit(s, s.out)
	}
}
