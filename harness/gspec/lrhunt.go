package gspec

import (
	"fmt"
	"sort"

	"pgregory.net/rapid"
)

// LRHuntGen draws arbitrary rule-reference graphs (2-6 rules) whose references sit behind
// every kind of prefix: nothing, consuming terminals, optional/star/plus groups, empty
// literals, lookahead predicates, code predicates, state blocks, nullable rules, inside
// groups under ? * +, inside & and !, inside recovery operators. The grammars are NOT
// well-formed by construction: they exist to probe left-recursion detection (C07) and
// generation determinism (C19).
func LRHuntGen() *rapid.Generator[*Grammar] {
	return rapid.Custom(func(t *rapid.T) *Grammar {
		n := 2 + U(t, 5, "nrules")
		names := make([]string, n)
		for i := range names {
			names[i] = fmt.Sprintf("R%d", i+1)
		}
		switch U(t, 4, "altnames") {
		case 0:
			pool := []string{"Z", "M", "A", "B", "Y", "K", "Q"}
			for i := range names {
				names[i] = pool[i]
			}
		case 1:
			// names of different lengths whose length order and alphabetical order disagree
			pool := []string{"Expr", "Va", "Sum", "P", "Term10", "B", "Zz"}
			for i := range names {
				names[i] = pool[i]
			}
		}
		id := 0
		nextID := func() int { id++; return id }
		term := func() *Expr {
			switch U(t, 4, "termkind") {
			case 0:
				return Lit(Pick(t, []string{"a", "b", "x", "y"}, "lit"))
			case 1:
				return &Expr{K: KClass, Chars: []rune{'a', 'b'}}
			case 2:
				return &Expr{K: KAny}
			}
			return &Expr{K: KClass, Inv: true} // [^] : any rune
		}
		nullableThing := func() *Expr {
			switch U(t, 12, "nullkind") {
			case 9:
				return Not(Not(term()))
			case 10:
				return Not(And(term()))
			case 11:
				return And(Not(&Expr{K: KAndCode, ID: nextID()}))
			case 0:
				return Lit("")
			case 1:
				return Opt(term())
			case 2:
				return Star(term())
			case 3:
				return And(term())
			case 4:
				return Not(term())
			case 5:
				return &Expr{K: KAndCode, ID: nextID()}
			case 6:
				return &Expr{K: KState, ID: nextID()}
			case 7:
				return &Expr{K: KClass} // [] : never matches
			}
			return Opt(Lit(""))
		}
		var ref func(depth int) *Expr
		ref = func(depth int) *Expr {
			r := Ref(Pick(t, names, "refname"))
			switch U(t, 19, "refwrap") {
			case 13, 14, 15, 16:
				// the operand of ? * & ! is itself wrapped: an action, a label, a +, another
				// operator; what stands in front of the reference is nullable by its kind or is a
				// reference to a rule that may be (a flag the analysis has to compute and store)
				pre := nullableThing()
				if U(t, 2, "prekind") == 0 {
					pre = Ref(Pick(t, names, "preref"))
				}
				switch U(t, 4, "wrapkind") {
				case 0:
					return Opt(Action(nextID(), Seq(pre, r, term())))
				case 1:
					return Star(Label("g", Seq(pre, r, term())))
				case 2:
					return Opt(Plus(Seq(pre, r, term())))
				}
				return Not(Opt(Action(nextID(), Seq(pre, r))))
			case 0:
				return Opt(r)
			case 1:
				return Star(r)
			case 2:
				return Plus(r)
			case 3:
				return And(r)
			case 4:
				return Not(r)
			case 5:
				return Label("l", r)
			case 6:
				// group of nullable things around the reference under ?
				return Opt(Seq(nullableThing(), r, term()))
			case 7:
				return Recover(r, term(), "F1")
			case 8:
				return Recover(term(), r, "F1")
			case 9:
				if depth < 2 {
					return Star(Seq(ref(depth+1), term()))
				}
			case 10:
				// the guarded expression throws before it consumes anything: the recovery
				// expression runs at the offset at which the operator was entered
				return Recover(Choice(term(), Throw("F1")), r, "F1")
			case 11:
				return Recover(Seq(Choice(term(), Throw("F1")), term()), r, "F1")
			case 12:
				// the throw comes from a rule called by the guarded expression
				return Recover(Seq(Ref(Pick(t, names, "guardedref")), term()), r, "F1")
			}
			return r
		}
		g := &Grammar{Pkg: "p", Profile: "lrhunt"}
		for i := 0; i < n; i++ {
			nAlts := 1 + U(t, 3, "nalts")
			var alts []*Expr
			for a := 0; a < nAlts; a++ {
				nEl := 1 + U(t, 4, "nelems")
				var els []*Expr
				if U(t, 4, "alttemplate") == 0 {
					// bare shapes whose nullability and first set hang on other rules alone:
					//   R   |   R R   |   R t?   |   ""
					nEl = 0
					pr := func() *Expr { return Ref(Pick(t, names, "tmplref")) }
					switch U(t, 4, "tmplkind") {
					case 0:
						els = []*Expr{pr()}
					case 1:
						els = []*Expr{pr(), pr()}
					case 2:
						els = []*Expr{pr(), Opt(term())}
					default:
						els = []*Expr{Lit("")}
					}
				}
				for e := 0; e < nEl; e++ {
					switch k := U(t, 10, "elkind"); {
					case k < 3:
						els = append(els, term())
					case k < 6:
						els = append(els, nullableThing())
					case k < 9:
						els = append(els, ref(0))
					default:
						els = append(els, Throw("F1"))
					}
				}
				var alt *Expr
				if len(els) == 1 {
					alt = els[0]
				} else {
					alt = Seq(els...)
				}
				if U(t, 6, "altaction") == 0 {
					alt = Action(nextID(), alt)
				}
				alts = append(alts, alt)
			}
			var e *Expr
			if len(alts) == 1 {
				e = alts[0]
			} else {
				e = Choice(alts...)
			}
			g.Rules = append(g.Rules, &Rule{Name: names[i], Expr: e})
			g.Entries = append(g.Entries, names[i])
		}
		g.Analyze()
		return g
	})
}

// NullableOver computes, per rule, whether it may succeed without consuming input
// (textbook well-formedness analysis, least fixpoint; an over-approximation for PEG).
func NullableOver(g *Grammar) map[string]bool {
	null := map[string]bool{}
	var nul func(e *Expr) bool
	nul = func(e *Expr) bool {
		switch e.K {
		case KLit:
			return len(e.Val) == 0
		case KClass, KAny:
			return false
		case KRef:
			return null[e.Name]
		case KSeq:
			for _, s := range e.Sub {
				if !nul(s) {
					return false
				}
			}
			return true
		case KChoice:
			for _, s := range e.Sub {
				if nul(s) {
					return true
				}
			}
			return false
		case KOpt, KStar, KAnd, KNot, KAndCode, KNotCode, KState, KThrow:
			return true
		case KPlus, KLabel, KAction:
			return nul(e.Sub[0])
		case KRecover:
			return nul(e.Sub[0]) || nul(e.Sub[1])
		}
		return true
	}
	for changed := true; changed; {
		changed = false
		for _, r := range g.Rules {
			if !null[r.Name] && nul(r.Expr) {
				null[r.Name] = true
				changed = true
			}
		}
	}
	return null
}

// FirstOver computes the graph "rule A may invoke rule B at A's own start offset",
// looking through lookahead predicates and recovery expressions (an over-approximation:
// a grammar without a cycle in this graph can never re-enter a rule at the offset at which
// it is already active).
func FirstOver(g *Grammar) map[string]map[string]bool { return firstGraph(g, true, false) }

// FirstShortCircuit models the recorded finding KF-C07-SHORTCIRCUIT: behind the first
// nullable alternative of a choice (and in the recovery expression of an operator whose
// guarded expression is nullable) pigeon never computes nullable flags, so inside those
// regions a sequence is only followed past elements that are nullable by their very kind
// (x?, x*, &x, !x, code/state blocks, throws, ""). A cycle in this graph is one pigeon is
// expected to find; a cycle that only exists in FirstOver falls into the finding.
func FirstShortCircuit(g *Grammar) map[string]map[string]bool { return firstGraph(g, false, true) }

// FirstOverNoThrow is FirstOver without the edges from a throw to the recovery expressions
// of its label.
func FirstOverNoThrow(g *Grammar) map[string]map[string]bool { return firstGraph(g, false, false) }

func intrinsicNullable(e *Expr) bool {
	switch e.K {
	case KLit:
		return len(e.Val) == 0
	case KOpt, KStar, KAnd, KNot, KAndCode, KNotCode, KState, KThrow:
		return true
	case KLabel:
		return intrinsicNullable(e.Sub[0])
	}
	return false
}

func firstGraph(g *Grammar, throwEdges, shortCircuit bool) map[string]map[string]bool {
	null := NullableOver(g)
	var nul func(e *Expr) bool
	nul = func(e *Expr) bool {
		switch e.K {
		case KLit:
			return len(e.Val) == 0
		case KClass, KAny:
			return false
		case KRef:
			return null[e.Name]
		case KSeq:
			for _, s := range e.Sub {
				if !nul(s) {
					return false
				}
			}
			return true
		case KChoice:
			for _, s := range e.Sub {
				if nul(s) {
					return true
				}
			}
			return false
		case KPlus, KLabel, KAction:
			return nul(e.Sub[0])
		case KRecover:
			return nul(e.Sub[0]) || nul(e.Sub[1])
		}
		return true
	}
	// recovery expressions by label (a throw runs them at the throw offset)
	recs := map[string][]*Expr{}
	for _, r := range g.Rules {
		Walk(r.Expr, func(e *Expr) {
			if e.K == KRecover {
				for _, l := range e.Labels {
					recs[l] = append(recs[l], e.Sub[1])
				}
			}
		})
	}
	graph := map[string]map[string]bool{}
	var first func(e *Expr, out map[string]bool, depth int, unvisited bool)
	first = func(e *Expr, out map[string]bool, depth int, unvisited bool) {
		if depth > 50 {
			return
		}
		isNull := func(x *Expr) bool {
			if unvisited {
				return intrinsicNullable(x)
			}
			return nul(x)
		}
		switch e.K {
		case KRef:
			out[e.Name] = true
		case KSeq:
			for _, s := range e.Sub {
				first(s, out, depth+1, unvisited)
				if !isNull(s) {
					break
				}
			}
		case KChoice:
			un := unvisited
			for _, s := range e.Sub {
				first(s, out, depth+1, un)
				if shortCircuit && nul(s) {
					un = true
				}
			}
		case KOpt, KStar, KPlus, KAnd, KNot, KLabel, KAction:
			first(e.Sub[0], out, depth+1, unvisited)
		case KRecover:
			first(e.Sub[0], out, depth+1, unvisited)
			first(e.Sub[1], out, depth+1, unvisited || (shortCircuit && nul(e.Sub[0])))
		case KThrow:
			if throwEdges {
				for _, rec := range recs[e.Name] {
					first(rec, out, depth+1, unvisited)
				}
			}
		}
	}
	for _, r := range g.Rules {
		out := map[string]bool{}
		first(r.Expr, out, 0, false)
		graph[r.Name] = out
	}
	return graph
}

// HasCycle reports whether the directed graph has a cycle and returns one vertex on it.
func HasCycle(graph map[string]map[string]bool) (string, bool) {
	names := make([]string, 0, len(graph))
	for k := range graph {
		names = append(names, k)
	}
	sort.Strings(names)
	state := map[string]int{}
	var dfs func(v string) (string, bool)
	dfs = func(v string) (string, bool) {
		state[v] = 1
		var next []string
		for w := range graph[v] {
			next = append(next, w)
		}
		sort.Strings(next)
		for _, w := range next {
			if state[w] == 1 {
				return w, true
			}
			if state[w] == 0 {
				if x, c := dfs(w); c {
					return x, true
				}
			}
		}
		state[v] = 2
		return "", false
	}
	for _, v := range names {
		if state[v] == 0 {
			if x, c := dfs(v); c {
				return x, true
			}
		}
	}
	return "", false
}

// RefGraph is the plain reference graph (any position).
func RefGraph(g *Grammar) map[string]map[string]bool {
	graph := map[string]map[string]bool{}
	for _, r := range g.Rules {
		out := map[string]bool{}
		Walk(r.Expr, func(e *Expr) {
			if e.K == KRef {
				out[e.Name] = true
			}
		})
		graph[r.Name] = out
	}
	return graph
}

// NullableAltNotLast reports whether some choice has a nullable alternative that is not
// its last one, or some recovery operator a nullable guarded expression (the shapes behind
// which pigeon's nullable analysis stops visiting, see KF-C07-SHORTCIRCUIT).
func NullableAltNotLast(g *Grammar) bool {
	null := NullableOver(g)
	var nul func(e *Expr) bool
	nul = func(e *Expr) bool {
		switch e.K {
		case KLit:
			return len(e.Val) == 0
		case KClass, KAny:
			return false
		case KRef:
			return null[e.Name]
		case KSeq:
			for _, s := range e.Sub {
				if !nul(s) {
					return false
				}
			}
			return true
		case KChoice:
			for _, s := range e.Sub {
				if nul(s) {
					return true
				}
			}
			return false
		case KPlus, KLabel, KAction:
			return nul(e.Sub[0])
		case KRecover:
			return nul(e.Sub[0]) || nul(e.Sub[1])
		}
		return true
	}
	found := false
	for _, r := range g.Rules {
		Walk(r.Expr, func(e *Expr) {
			if e.K == KChoice {
				for i, a := range e.Sub {
					if i < len(e.Sub)-1 && nul(a) {
						found = true
					}
				}
			}
			if e.K == KRecover && nul(e.Sub[0]) {
				found = true
			}
		})
	}
	return found
}

// HubLRGen draws one big left-recursive component with thousands of cycles (the analysis
// enumerates them all): two hub rules H1 < H2 (by name) and k = 10..12 rules P_i that refer
// forward to every later P_j:
//
//	H2 <- P_0 t / W t / b      W <- H2 t      H1 <- H2 t      P_i <- P_j t (j > i) / ... / H1 t
//
// Every cycle through the P_i passes both hubs; the short cycle H2 - W - H2 is the only one
// that does not contain H1, so H2 is the one rule on every cycle (the leader) - a verdict that
// needs every one of the 2^(k-1) paths to be looked at. Some forward edges are dropped, the
// names and the order of the rules in the file vary, so that no two cases share their numbers.
func HubLRGen() *rapid.Generator[*Grammar] {
	return rapid.Custom(func(t *rapid.T) *Grammar {
		k := []int{10, 10, 10, 11, 11, 11, 12, 12}[U(t, 8, "hubk")]
		h1, h2, w := "Access", "Value", "Wrap"
		p := func(i int) string { return fmt.Sprintf("P%02d", i) }
		if U(t, 2, "hubnames") == 0 {
			h1, h2, w = "A", "M", "Z"
			p = func(i int) string { return fmt.Sprintf("N%02d", i) }
		}
		g := &Grammar{Pkg: "p", Profile: "lrhunt"}
		g.Rules = append(g.Rules,
			&Rule{Name: h2, Expr: Choice(Seq(Ref(p(0)), Lit("!")), Seq(Ref(w), Lit(")")), Lit("b"))},
			&Rule{Name: w, Expr: Seq(Ref(h2), Lit("("))},
			&Rule{Name: h1, Expr: Seq(Ref(h2), Lit("."))})
		for i := 0; i < k; i++ {
			var as []*Expr
			for j := i + 1; j < k; j++ {
				if U(t, 30, "dropedge") != 0 {
					as = append(as, Seq(Ref(p(j)), Lit("a")))
				}
			}
			as = append(as, Seq(Ref(h1), Lit("v")))
			if len(as) == 1 {
				as = append(as, Lit("b"))
			}
			g.Rules = append(g.Rules, &Rule{Name: p(i), Expr: Choice(as...)})
		}
		// rule order in the file is drawn too (the hubs first, last or in the middle)
		if U(t, 2, "hubrotate") == 0 {
			r := 1 + U(t, len(g.Rules)-1, "hubrot")
			g.Rules = append(append([]*Rule{}, g.Rules[r:]...), g.Rules[:r]...)
		}
		for _, r := range g.Rules {
			g.Entries = append(g.Entries, r.Name)
		}
		g.Analyze()
		return g
	})
}

// MultiSCCGen draws a start rule that reaches two to four separate groups of mutually
// left-recursive rules (each group a cycle of two or three rules), directly or through a
// helper: whatever the analysis says about one group must not depend on the order in which
// it comes across the groups.
func MultiSCCGen() *rapid.Generator[*Grammar] {
	return rapid.Custom(func(t *rapid.T) *Grammar {
		n := 2 + U(t, 3, "ngroups")
		pool := []string{"Decl", "Expr", "Atom", "Blk"}
		if U(t, 2, "sccnames") == 0 {
			pool = []string{"Z", "B", "Q", "A"}
		}
		g := &Grammar{Pkg: "p", Profile: "lrhunt"}
		var starts []*Expr
		var rules []*Rule
		for i := 0; i < n; i++ {
			a := pool[i]
			size := 2 + U(t, 2, "sccsize")
			names := []string{a}
			for j := 1; j < size; j++ {
				names = append(names, fmt.Sprintf("%s%d", a, j))
			}
			for j, nm := range names {
				next := names[(j+1)%size]
				rules = append(rules, &Rule{Name: nm, Expr: Choice(Seq(Ref(next), Lit(string(rune('a'+j)))), Lit(string(rune('p'+i))))})
			}
			starts = append(starts, Ref(a))
		}
		start := &Rule{Name: "Start", Expr: Choice(starts...)}
		if U(t, 3, "viahelper") == 0 {
			// the groups are reached through a helper rule
			rules = append(rules, &Rule{Name: "Any", Expr: Choice(starts...)})
			start = &Rule{Name: "Start", Expr: Seq(Opt(Lit(" ")), Ref("Any"))}
		}
		g.Rules = append([]*Rule{start}, rules...)
		if U(t, 2, "sccrotate") == 0 {
			r := 1 + U(t, len(g.Rules)-1, "sccrot")
			g.Rules = append(append([]*Rule{}, g.Rules[r:]...), g.Rules[:r]...)
		}
		for _, r := range g.Rules {
			g.Entries = append(g.Entries, r.Name)
		}
		g.Analyze()
		return g
	})
}
