package gspec

import (
	"unicode"
	"unicode/utf8"

	"pgregory.net/rapid"
)

type sampler struct {
	t     *rapid.T
	g     *Grammar
	alpha []rune
	out   []byte
	nodes int
	hs    []*Expr // enclosing recovery operators
	done  []*Expr // recovery operators whose guarded expression was already sampled

	maxNodes, maxOut, maxDepth int // size limits of one sample (lifted for big rules)
}

func (s *sampler) intn(lo, hi int, l string) int { return lo + U(s.t, hi-lo+1, l) }

// BoundaryRunes sit at the edges of the encoding and of the tables parsers special-case:
// the last Basic Latin rune and the first one behind it, the ends of the 2/3/4-byte ranges,
// the runes around the surrogate gap, NUL, the byte order mark, the Unicode line separators (which are not newlines here).
var BoundaryRunes = []rune{0x7f, 0x80, 0x81, 0xff, 0x100, 0x7ff, 0x800, 0xd7ff, 0xe000, 0xfffe, 0xffff, 0x10000, 0x10ffff, 0, 0xfeff, 0x2028, 0x2029, 0x85}

func (s *sampler) rune_() rune {
	if U(s.t, 12, "boundaryrune") == 0 {
		return Pick(s.t, BoundaryRunes, "brune")
	}
	return Pick(s.t, s.alpha, "irune")
}

func flipCase(r rune) rune {
	if unicode.IsLower(r) {
		return unicode.ToUpper(r)
	}
	return unicode.ToLower(r)
}

// classPick picks a rune that is (member=true) or is not a member of the class items.
func (s *sampler) classPick(e *Expr) rune {
	var cands []rune
	cands = append(cands, e.Chars...)
	for i := 0; i+1 < len(e.Ranges); i += 2 {
		lo, hi := e.Ranges[i], e.Ranges[i+1]
		if lo <= hi {
			cands = append(cands, lo, hi, lo+(hi-lo)/2)
			// the runes of the alphabet inside the range, and for a letter its other case (a
			// member or a near miss, depending on where the range ends)
			for _, a := range s.alpha {
				if lo <= a && a <= hi && a != lo && a != hi {
					cands = append(cands, a)
					if f := flipCase(a); f != a {
						cands = append(cands, f)
					}
				}
			}
		}
	}
	for _, u := range e.UClasses {
		switch u {
		case "L", "Ll", "Latin":
			cands = append(cands, 'a', 'é')
		case "Lu":
			cands = append(cands, 'A', 'É')
		case "N", "Nd":
			cands = append(cands, '0', '1')
		case "P":
			cands = append(cands, '_', '-')
		case "Z", "White_Space":
			cands = append(cands, ' ')
		case "S":
			cands = append(cands, '^', '😀')
		case "Han":
			cands = append(cands, '日')
		case "Greek":
			cands = append(cands, 'Ω')
		case "Cyrillic":
			cands = append(cands, 'Ж')
		case "ASCII_Hex_Digit":
			cands = append(cands, 'a', 'F', '0')
		case "C":
			cands = append(cands, '\t')
		case "M":
			cands = append(cands, '́')
		}
	}
	if e.Inv || len(cands) == 0 || s.intn(0, 9, "classmiss") == 0 {
		return s.rune_()
	}
	r := Pick(s.t, cands, "classmember")
	if e.IC && s.intn(0, 1, "classflip") == 1 {
		r = flipCase(r)
	}
	return r
}

func (s *sampler) walk(e *Expr, depth int) {
	s.nodes++
	if s.nodes > s.maxNodes || len(s.out) > s.maxOut {
		return
	}
	switch e.K {
	case KLit:
		if !utf8.Valid(e.Val) {
			// (a literal whose value is not UTF-8: its bytes as they are)
			s.out = append(s.out, e.Val...)
			return
		}
		for _, r := range string(e.Val) {
			if e.IC && s.intn(0, 2, "litflip") == 0 {
				r = flipCase(r)
			}
			s.out = utf8.AppendRune(s.out, r)
		}
	case KClass:
		s.out = utf8.AppendRune(s.out, s.classPick(e))
	case KAny:
		s.out = utf8.AppendRune(s.out, s.rune_())
	case KRef:
		if depth > s.maxDepth {
			return
		}
		if r := s.g.Rule(e.Name); r != nil {
			if r.LR != nil {
				s.walkLR(r, depth+1)
			} else {
				s.walk(r.Expr, depth+1)
			}
		}
	case KSeq:
		for _, x := range e.Sub {
			s.walk(x, depth)
		}
	case KChoice:
		// biased to later alternatives, so that earlier ones have to fail first
		n := len(e.Sub)
		i := s.intn(0, n-1, "alt")
		if i < n-1 && s.intn(0, 2, "altlater") == 0 {
			i = n - 1
		}
		if depth > 8 {
			i = 0
		}
		s.walk(e.Sub[i], depth)
	case KOpt:
		if s.intn(0, 9, "opt") < 7 {
			s.walk(e.Sub[0], depth+1)
		}
	case KStar, KPlus:
		n := []int{0, 1, 1, 1, 1, 2, 2, 2, 3, 3}[s.intn(0, 9, "reps")]
		if e.K == KPlus && n == 0 {
			n = 1
		}
		if depth > 8 && n > 1 {
			n = 1
		}
		for i := 0; i < n; i++ {
			s.walk(e.Sub[0], depth+1)
		}
	case KLabel, KAction:
		s.walk(e.Sub[0], depth)
	case KRecover:
		s.hs = append(s.hs, e)
		s.walk(e.Sub[0], depth)
		s.hs = s.hs[:len(s.hs)-1]
		s.done = append(s.done, e)
	case KThrow:
		// continue with what the innermost handler of the label expects (sometimes with the
		// next outer one, so that the inner handler has to fail first)
		skip := 0
		if s.intn(0, 4, "throwouter") == 0 {
			skip = 1
		}
		for i := len(s.hs) - 1; i >= 0; i-- {
			match := false
			for _, l := range s.hs[i].Labels {
				match = match || l == e.Name
			}
			if !match {
				continue
			}
			if skip > 0 {
				skip--
				continue
			}
			if depth < 10 {
				s.walk(s.hs[i].Sub[1], depth+1)
			}
			return
		}
		// no handler in force: sometimes continue with what a handler that is no longer in
		// force would have expected (the throw must fail all the same)
		if len(s.done) > 0 && s.intn(0, 1, "stalehandler") == 1 && depth < 10 {
			for i := len(s.done) - 1; i >= 0; i-- {
				for _, l := range s.done[i].Labels {
					if l == e.Name {
						s.walk(s.done[i].Sub[1], depth+1)
						return
					}
				}
			}
		}
		if s.intn(0, 1, "throwjunk") == 1 {
			s.out = utf8.AppendRune(s.out, s.rune_())
		}
	}
}

// tailRest returns the elements of a recursive alternative behind its leading reference.
func tailRest(alt *Expr) []*Expr {
	for alt.K == KAction || alt.K == KLabel {
		alt = alt.Sub[0]
	}
	if alt.K == KSeq {
		return alt.Sub[1:]
	}
	return nil
}

// walkLR samples a left-recursive rule by its denotation: a base, then 0-3 tails.
func (s *sampler) walkLR(r *Rule, depth int) {
	alts := r.Expr.Sub
	if depth > 10 {
		return
	}
	s.walk(alts[r.LR.Bases[s.intn(0, len(r.LR.Bases)-1, "lrbase")]], depth)
	n := []int{0, 1, 1, 2, 2, 3}[s.intn(0, 5, "lrtails")]
	for i := 0; i < n; i++ {
		if r.LR.Via != "" {
			if v := s.g.Rule(r.LR.Via); v != nil {
				for _, x := range tailRest(v.Expr) {
					s.walk(x, depth+1)
				}
			}
		}
		t := alts[r.LR.Tails[s.intn(0, len(r.LR.Tails)-1, "lrtail")]]
		for _, x := range tailRest(t) {
			s.walk(x, depth+1)
		}
	}
}

// SampleInput draws an input for an entry rule: a derivation sample with 0-3 edits
// (60%), a short random string (25%) or a boundary string (15%). MaxLen bounds the size.
func SampleInput(t *rapid.T, g *Grammar, entry string, alphabet []rune, maxLen int) []byte {
	s := &sampler{t: t, g: g, alpha: alphabet, maxNodes: 400, maxOut: 64, maxDepth: 12}
	mode := s.intn(0, 99, "inputmode")
	var out []byte
	if r := g.Rule(entry); r != nil && r.Big != "" && mode < 90 {
		s.sampleBig(r)
		return s.out
	}
	switch {
	case mode < 75:
		r := g.Rule(entry)
		if r == nil {
			r = g.Rules[0]
		}
		if r.LR != nil {
			s.walkLR(r, 0)
		} else {
			s.walk(r.Expr, 0)
		}
		out = s.out
		ne := []int{0, 0, 0, 0, 0, 1, 1, 1, 2, 3}[s.intn(0, 9, "nedits")]
		for i := 0; i < ne; i++ {
			out = edit(s, out)
		}
	case mode < 92:
		n := s.intn(0, 8, "randlen")
		for i := 0; i < n; i++ {
			out = utf8.AppendRune(out, s.rune_())
		}
	default:
		out = []byte(Pick(t, []string{"", "\n", "\n\n", "a", "é", "日😀", "\na", "a\n", " ", "aaaaaaaaaaaa", "abcabcabc", "0", "\t"}, "boundary"))
	}
	if U(t, 40, "leadingbom") == 0 {
		// a byte order mark is a rune like any other, also as the first one of the input
		out = append([]byte("\ufeff"), out...)
	}
	if len(out) > maxLen {
		out = out[:maxLen]
		for len(out) > 0 && !utf8.Valid(out) {
			out = out[:len(out)-1]
		}
	}
	return out
}

func runesOf(b []byte) []rune { return []rune(string(b)) }

func edit(s *sampler, in []byte) []byte {
	rs := runesOf(in)
	switch s.intn(0, 5, "editkind") {
	case 0: // delete
		if len(rs) > 0 {
			i := s.intn(0, len(rs)-1, "editpos")
			rs = append(rs[:i:i], rs[i+1:]...)
		}
	case 1: // insert
		i := s.intn(0, len(rs), "editpos")
		rs = append(rs[:i:i], append([]rune{s.rune_()}, rs[i:]...)...)
	case 2: // substitute
		if len(rs) > 0 {
			i := s.intn(0, len(rs)-1, "editpos")
			rs[i] = s.rune_()
		}
	case 3: // duplicate
		if len(rs) > 0 {
			i := s.intn(0, len(rs)-1, "editpos")
			rs = append(rs[:i:i], append([]rune{rs[i]}, rs[i:]...)...)
		}
	case 4: // truncate
		if len(rs) > 0 {
			rs = rs[:s.intn(0, len(rs)-1, "editpos")]
		}
	case 5: // append junk
		rs = append(rs, s.rune_(), s.rune_())
	}
	return []byte(string(rs))
}

// InvalidUTF8Edit inserts or substitutes invalid byte sequences (C17).
func InvalidUTF8Edit(t *rapid.T, in []byte) []byte {
	bad := [][]byte{{0xff}, {0x80}, {0xc3}, {0xe6, 0x97}, {0xf0, 0x9f, 0x98}, {0xc0, 0xaf}, {0xed, 0xa0, 0x80}, {0xf8, 0x88, 0x80, 0x80, 0x80}, {0xef, 0xbf, 0xbd}, {0xfe}, {0xe0, 0x80}}
	n := 1 + U(t, 3, "nbad")
	out := append([]byte{}, in...)
	for i := 0; i < n; i++ {
		b := Pick(t, bad, "badseq")
		// insert at a rune boundary of the current string
		var bounds []int
		for j := 0; j <= len(out); {
			bounds = append(bounds, j)
			if j == len(out) {
				break
			}
			_, w := utf8.DecodeRune(out[j:])
			j += w
		}
		p := Pick(t, bounds, "badpos")
		out = append(out[:p:p], append(append([]byte{}, b...), out[p:]...)...)
	}
	return out
}
