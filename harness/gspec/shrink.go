package gspec

import (
	"sort"
	"unicode/utf8"
)

// Normalize re-establishes the normal form after a structural edit: sequences and
// choices with one child collapse to the child, rules that are neither entry points nor
// referenced are dropped, entries that vanished are removed.
func (g *Grammar) Normalize(keepEntries []string) {
	var norm func(e *Expr) *Expr
	norm = func(e *Expr) *Expr {
		for i, s := range e.Sub {
			e.Sub[i] = norm(s)
		}
		if (e.K == KSeq || e.K == KChoice) && len(e.Sub) == 1 {
			return e.Sub[0]
		}
		return e
	}
	for _, r := range g.Rules {
		r.Expr = norm(r.Expr)
	}
	keep := map[string]bool{}
	for _, e := range keepEntries {
		keep[e] = true
	}
	if len(g.Rules) > 0 {
		keep[g.Rules[0].Name] = true
	}
	// closure over references
	for changed := true; changed; {
		changed = false
		for _, r := range g.Rules {
			if !keep[r.Name] {
				continue
			}
			Walk(r.Expr, func(e *Expr) {
				if e.K == KRef && !keep[e.Name] {
					keep[e.Name] = true
					changed = true
				}
			})
		}
	}
	var rules []*Rule
	for _, r := range g.Rules {
		if keep[r.Name] {
			rules = append(rules, r)
		}
	}
	g.Rules = rules
	var ents []string
	for _, e := range g.Entries {
		if keep[e] {
			for _, r := range rules {
				if r.Name == e {
					ents = append(ents, e)
				}
			}
		}
	}
	g.Entries = ents
	g.Analyze()
}

type path struct {
	rule int
	idx  []int
}

func nodeAt(g *Grammar, p path) *Expr {
	e := g.Rules[p.rule].Expr
	for _, i := range p.idx {
		e = e.Sub[i]
	}
	return e
}

func setAt(g *Grammar, p path, n *Expr) {
	if len(p.idx) == 0 {
		g.Rules[p.rule].Expr = n
		return
	}
	parent := g.Rules[p.rule].Expr
	for _, i := range p.idx[:len(p.idx)-1] {
		parent = parent.Sub[i]
	}
	parent.Sub[p.idx[len(p.idx)-1]] = n
}

func allPaths(g *Grammar) []path {
	var out []path
	for ri, r := range g.Rules {
		var walk func(e *Expr, idx []int)
		walk = func(e *Expr, idx []int) {
			out = append(out, path{ri, append([]int{}, idx...)})
			for i, s := range e.Sub {
				walk(s, append(idx, i))
			}
		}
		walk(r.Expr, nil)
	}
	return out
}

// Reductions proposes structurally smaller variants of g (each a deep copy), largest
// cuts first, at most max. keep lists the entry rules that must survive.
func Reductions(g *Grammar, must []string, max int) []*Grammar {
	// entries are part of the specification (they are what -alternate-entrypoints
	// protects): they are only dropped by explicit candidates
	keep := append([]string{}, g.Entries...)
	for _, m := range must {
		found := false
		for _, k := range keep {
			found = found || k == m
		}
		if !found {
			keep = append(keep, m)
		}
	}
	type cand struct {
		g    *Grammar
		size int
	}
	var cands []cand
	seen := map[string]bool{}
	base := g.NodeCount()
	add := func(c *Grammar) {
		c.Normalize(keep)
		if c.Validate() != nil || len(c.Rules) == 0 {
			return
		}
		for _, k := range keep {
			if c.Rule(k) == nil {
				return
			}
		}
		key := string(c.ToJSON())
		if seen[key] {
			return
		}
		seen[key] = true
		n := c.NodeCount()
		if n > base || (n == base && len(key) >= len(g.ToJSON())) {
			return
		}
		cands = append(cands, cand{c, n})
	}
	if g.Decoy != "" {
		c := g.Clone()
		c.Decoy = ""
		add(c)
	}
	// restrict the entries to the needed ones (drops unrelated rules at once), or drop one
	{
		c := g.Clone()
		c.Entries = append([]string{}, must...)
		keep0 := keep
		keep = must
		add(c)
		keep = keep0
	}
	for _, e := range g.Entries {
		needed := false
		for _, m := range must {
			needed = needed || m == e
		}
		if needed {
			continue
		}
		c := g.Clone()
		var rest []string
		for _, x := range g.Entries {
			if x != e {
				rest = append(rest, x)
			}
		}
		c.Entries = rest
		keep0 := keep
		keep = append(append([]string{}, rest...), must...)
		add(c)
		keep = keep0
	}
	// left-recursive rules keep their shape (recursive alternatives first, each starting with
	// the recursive reference): whole alternatives may be dropped, operands may be reduced
	for ri, r := range g.Rules {
		if r.LR == nil {
			continue
		}
		for ai := range r.Expr.Sub {
			isTail := false
			for _, t := range r.LR.Tails {
				isTail = isTail || t == ai
			}
			if (isTail && len(r.LR.Tails) < 2) || (!isTail && len(r.LR.Bases) < 2) {
				continue
			}
			c := g.Clone()
			cr := c.Rules[ri]
			cr.Expr.Sub = append(cr.Expr.Sub[:ai:ai], cr.Expr.Sub[ai+1:]...)
			fix := func(xs []int) []int {
				var out []int
				for _, x := range xs {
					if x == ai {
						continue
					}
					if x > ai {
						x--
					}
					out = append(out, x)
				}
				return out
			}
			cr.LR.Tails, cr.LR.Bases = fix(cr.LR.Tails), fix(cr.LR.Bases)
			add(c)
		}
	}
	lrAllowed := func(p path) bool {
		r := g.Rules[p.rule]
		if r.LR == nil {
			return true
		}
		if len(p.idx) == 0 {
			return false
		}
		ai := p.idx[0]
		for _, b := range r.LR.Bases {
			if b == ai {
				return len(p.idx) >= 2 // inside a base
			}
		}
		// inside a tail: only below the operands (sequence elements behind the reference)
		e := r.Expr.Sub[ai]
		depth := 1
		for e.K == KAction || e.K == KLabel {
			if len(p.idx) <= depth || p.idx[depth] != 0 {
				return false
			}
			e = e.Sub[0]
			depth++
		}
		if e.K != KSeq || len(p.idx) <= depth {
			return false
		}
		return p.idx[depth] >= 1 && len(p.idx) > depth+1
	}
	for _, p := range allPaths(g) {
		if !lrAllowed(p) {
			continue
		}
		n := nodeAt(g, p)
		// hoist a child in place of the node
		for i := range n.Sub {
			c := g.Clone()
			setAt(c, p, nodeAt(c, p).Sub[i])
			add(c)
		}
		// drop one child of a sequence / choice
		if (n.K == KSeq || n.K == KChoice) && len(n.Sub) > 2 {
			for i := range n.Sub {
				c := g.Clone()
				m := nodeAt(c, p)
				m.Sub = append(m.Sub[:i:i], m.Sub[i+1:]...)
				add(c)
			}
		}
		if (n.K == KLit || n.K == KClass) && n.Sp != 0 {
			c := g.Clone()
			nodeAt(c, p).Sp = 0
			add(c)
		}
		switch n.K {
		case KLit:
			if len(n.Val) > 0 {
				_, w := utf8.DecodeRune(n.Val)
				c := g.Clone()
				nodeAt(c, p).Val = append([]byte{}, n.Val[w:]...)
				add(c)
				_, w = utf8.DecodeLastRune(n.Val)
				c = g.Clone()
				nodeAt(c, p).Val = append([]byte{}, n.Val[:len(n.Val)-w]...)
				add(c)
			}
			if n.IC {
				c := g.Clone()
				nodeAt(c, p).IC = false
				add(c)
			}
		case KClass:
			if n.IC {
				c := g.Clone()
				nodeAt(c, p).IC = false
				add(c)
			}
			if n.Inv {
				c := g.Clone()
				nodeAt(c, p).Inv = false
				add(c)
			}
			for i := range n.Chars {
				c := g.Clone()
				m := nodeAt(c, p)
				m.Chars = append(m.Chars[:i:i], m.Chars[i+1:]...)
				add(c)
			}
			for i := 0; i+1 < len(n.Ranges); i += 2 {
				c := g.Clone()
				m := nodeAt(c, p)
				m.Ranges = append(m.Ranges[:i:i], m.Ranges[i+2:]...)
				add(c)
			}
			for i := range n.UClasses {
				c := g.Clone()
				m := nodeAt(c, p)
				m.UClasses = append(m.UClasses[:i:i], m.UClasses[i+1:]...)
				add(c)
			}
		case KRef:
			// inline the referenced rule's body when it is small, or cut the reference
			c := g.Clone()
			setAt(c, p, &Expr{K: KLit, Val: []byte{}})
			add(c)
		case KState:
			if len(n.Ops) > 1 {
				c := g.Clone()
				m := nodeAt(c, p)
				m.Ops = m.Ops[:1]
				add(c)
			}
		case KRecover:
			if len(n.Labels) > 1 {
				c := g.Clone()
				m := nodeAt(c, p)
				m.Labels = m.Labels[:1]
				add(c)
			}
		}
	}
	for _, r := range g.Rules {
		if r.Display != "" {
			c := g.Clone()
			c.Rule(r.Name).Display = ""
			add(c)
		}
	}
	sort.SliceStable(cands, func(i, j int) bool { return cands[i].size < cands[j].size })
	if len(cands) > max {
		// keep a spread: the biggest cuts and some small ones
		head := cands[:max*3/4]
		tail := cands[len(cands)-(max-len(head)):]
		cands = append(append([]cand{}, head...), tail...)
	}
	out := make([]*Grammar, len(cands))
	for i, c := range cands {
		out[i] = c.g
	}
	return out
}
