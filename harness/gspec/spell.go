package gspec

import (
	"fmt"
	"strings"
	"unicode"
	"unicode/utf8"

	"pgregory.net/rapid"
)

// Speller writes a grammar as pigeon source text with every spelling choice drawn by
// rapid (layout, comments, terminators, definition operators, literal quotings and
// escapes, class item order and escapes, redundant parentheses) and records, for every
// node, the position (pigeon's line:col(offset) convention) of its first token.
type Speller struct {
	invClass bool // the class being spelled is inverted
	t    *rapid.T
	b    []byte
	line int // 1-based line of the next rune
	col  int // runes written since the last newline
	// Features counts the non-default spelling features used (non-triviality rule).
	Features map[string]int
	// Calm disables exotic layout (used for the bootstrap subset, C20a).
	Calm bool
	// Boot restricts the spelling to what the hand-written bootstrap front-end understands.
	Boot bool
}

// NewSpeller creates a speller.
func NewSpeller(t *rapid.T) *Speller {
	return &Speller{t: t, line: 1, Features: map[string]int{}}
}

func (s *Speller) pos() *[3]int { return &[3]int{s.line, s.col + 1, len(s.b)} }

func (s *Speller) w(str string) {
	for _, r := range str {
		s.b = utf8.AppendRune(s.b, r)
		if r == '\n' {
			s.line++
			s.col = 0
		} else {
			s.col++
		}
	}
}

// wb writes raw bytes that may not be valid UTF-8 on their own (never used for now).
func (s *Speller) u(n int, l string) int { return U(s.t, n, l) }

func (s *Speller) feat(f string) { s.Features[f]++ }

var commentBodies = []string{" note", " rule = 'x'", " }{ ][ \"", "", " é日", " a / b"}

// blockBodies: what a block comment may hold besides the bodies above - stars before the
// closing one ( /** doc **/ , /***/ ), a lone slash, a star followed by a blank, line breaks.
var blockBodies = append(append([]string{}, commentBodies...), "*", "* doc *", " x *", "**", " a * b ", " / ", "* /", "\n * line\n ", "*\n*", "/", "* x = 'y' *")

// ws writes optional white space / comments where the grammar allows `__`.
// need = at least one separating character is required.
func (s *Speller) ws(need bool) {
	if s.Boot || s.Calm {
		if need || s.u(3, "wscalm") == 0 {
			s.w(" ")
		}
		return
	}
	n := s.u(8, "wskind")
	switch {
	case n < 4:
		if need || n < 2 {
			s.w(" ")
		}
	case n == 4:
		s.w("  ")
	case n == 5:
		s.w("\t")
		s.feat("tab")
	case n == 6:
		s.w("\n")
		if s.u(2, "wsindent") == 0 {
			s.w("    ")
		}
		s.feat("newline_inside_rule")
	default:
		switch s.u(3, "comment") {
		case 0:
			b := Pick(s.t, blockBodies, "bbody")
			s.w(" /*" + b + "*/ ")
			s.feat("block_comment")
			if strings.HasSuffix(b, "*") {
				s.feat("block_comment_ending_in_stars")
			}
		case 1:
			s.w(" //" + strings.TrimPrefix(Pick(s.t, commentBodies, "cbody"), "{") + "\n")
			s.feat("line_comment")
		default:
			s.w(" \r\n ")
			s.feat("crlf")
		}
	}
}

// eos terminates a rule (or the initializer).
func (s *Speller) eos(last bool) {
	if s.Boot {
		s.w("\n")
		if s.u(3, "blank") == 0 {
			s.w("\n")
		}
		return
	}
	switch k := s.u(7, "eos"); {
	case k == 6:
		// the semicolon may follow any white space, line breaks and comments included
		s.w(Pick(s.t, []string{"\n;\n", "\n  ; ", " // note\n;\n", "\r\n;\n"}, "eoslate"))
		s.feat("semicolon")
		s.feat("semicolon_after_newline")
	case k == 0:
		s.w(";")
		s.feat("semicolon")
		if s.u(2, "eosnl") == 0 {
			s.w("\n")
		} else {
			s.w(" ")
		}
	case k == 1:
		s.w(" ;\n")
		s.feat("semicolon")
	case k == 2:
		s.w(" // end" + "\n")
		s.feat("line_comment")
	case k == 3 && last:
		s.feat("eof_terminator")
		// EOF terminates the rule
	case k == 4:
		s.w(Pick(s.t, []string{" /* x */\n", " /** x **/\n", " /***/\n", " /* x */ // y\n", " /* a * b */\n"}, "eosblock"))
		s.feat("block_comment")
	default:
		s.w("\n")
		if s.u(3, "blank") == 0 {
			s.w("\n")
		}
	}
}

// ---------------------------------------------------------------------------------
// literals

func printableRaw(r rune) bool {
	return r != utf8.RuneError && r >= 0x20 && r != 0x7f && (r < 0x80 || unicode.IsPrint(r))
}

// escapeRune spells one rune of a double/single-quoted literal with a drawn escape form.
func (s *Speller) litRune(r rune, quote byte) string {
	simple := map[rune]string{'\a': `\a`, '\b': `\b`, '\f': `\f`, '\n': `\n`, '\r': `\r`, '\t': `\t`, '\v': `\v`, '\\': `\\`}
	if esc, ok := simple[r]; ok {
		if s.u(3, "simpleesc") != 0 {
			s.feat("simple_escape")
			return esc
		}
	}
	if r == rune(quote) {
		s.feat("quote_escape")
		return `\` + string(quote)
	}
	raw := printableRaw(r) && r != '\\' && r != '\n'
	k := s.u(10, "runeform")
	if raw && k < 6 {
		return string(r)
	}
	enc := utf8.AppendRune(nil, r)
	if r == utf8.RuneError {
		enc = []byte("\xef\xbf\xbd")
	}
	switch {
	case k == 6 && (quote == '"' || len(enc) == 1):
		s.feat("hex_escape")
		var b strings.Builder
		for _, c := range enc {
			fmt.Fprintf(&b, `\x%02x`, c)
		}
		return b.String()
	case k == 7 && (quote == '"' || len(enc) == 1):
		s.feat("octal_escape")
		var b strings.Builder
		for _, c := range enc {
			fmt.Fprintf(&b, `\%03o`, c)
		}
		return b.String()
	case r > 0xffff || k == 8:
		if r >= 0xd800 && r <= 0xdfff {
			return string(r)
		}
		s.feat("long_unicode_escape")
		return fmt.Sprintf(`\U%08x`, r)
	}
	if r >= 0xd800 && r <= 0xdfff {
		return string(r)
	}
	s.feat("short_unicode_escape")
	hex := fmt.Sprintf(`\u%04x`, r)
	if s.u(2, "hexcase") == 0 {
		hex = `\u` + strings.ToUpper(hex[2:])
	}
	return hex
}

// Lit spells a literal value (valid UTF-8) in one of the three quotings.
func (s *Speller) Lit(val []byte, ic bool) string {
	if !utf8.Valid(val) {
		// a value that is not UTF-8 can only be written with byte escapes
		s.feat("byte_literal")
		quote := byte('"')
		if len(val) == 1 && !s.Boot && s.u(2, "bytequote") == 0 {
			quote = '\''
			s.feat("single_quoted")
		}
		var b strings.Builder
		b.WriteByte(quote)
		for _, c := range val {
			if s.u(2, "byteform") == 0 {
				fmt.Fprintf(&b, `\x%02x`, c)
			} else {
				fmt.Fprintf(&b, `\%03o`, c)
			}
		}
		b.WriteByte(quote)
		out := b.String()
		if ic {
			out += "i"
		}
		return out
	}
	rs := []rune(string(val))
	var out string
	k := s.u(6, "quoting")
	switch {
	case k == 0 && len(rs) == 1 && rs[0] != '\n' && !s.Boot:
		s.feat("single_quoted")
		out = "'" + s.litRune(rs[0], '\'') + "'"
	case k == 1 && !strings.ContainsAny(string(val), "`\r") && utf8.Valid(val) && !strings.ContainsRune(string(val), utf8.RuneError):
		s.feat("raw_quoted")
		txt := string(val)
		if s.u(3, "rawcr") == 0 {
			// carriage returns inside a raw string literal are not part of its value (Go
			// notation): a file saved with CRLF line ends denotes the same literal
			s.feat("raw_quoted_with_cr")
			if strings.Contains(txt, "\n") {
				txt = strings.ReplaceAll(txt, "\n", "\r\n")
			} else {
				at := s.u(len(txt)+1, "rawcrat")
				for at > 0 && at < len(txt) && !utf8.RuneStart(txt[at]) {
					at--
				}
				txt = txt[:at] + "\r" + txt[at:]
			}
		}
		out = "`" + txt + "`"
	default:
		var b strings.Builder
		b.WriteByte('"')
		for _, r := range rs {
			b.WriteString(s.litRune(r, '"'))
		}
		b.WriteByte('"')
		out = b.String()
	}
	if ic {
		out += "i"
	}
	return out
}

// ---------------------------------------------------------------------------------
// classes

func (s *Speller) classRune(r rune, first bool) string {
	switch r {
	case ']':
		return `\]`
	case '\\':
		return `\\`
	case '^':
		// (behind the inversion caret of [^...] a member caret may stand for itself)
		if first && !(s.invClass && s.u(2, "rawcaret") == 0) {
			return `\x5e`
		}
		return "^"
	case '-':
		return "-" // callers place it only where it cannot be read as a range operator
	}
	simple := map[rune]string{'\a': `\a`, '\b': `\b`, '\f': `\f`, '\n': `\n`, '\r': `\r`, '\t': `\t`, '\v': `\v`}
	if esc, ok := simple[r]; ok {
		s.feat("class_escape")
		return esc
	}
	k := s.u(10, "classruneform")
	if printableRaw(r) && k < 7 {
		return string(r)
	}
	s.feat("class_escape")
	switch {
	case r < 0x100 && k%2 == 0:
		return fmt.Sprintf(`\x%02x`, r)
	case r < 0x100 && r < 0o400:
		return fmt.Sprintf(`\%03o`, r)
	case r < 0x10000 && !(r >= 0xd800 && r <= 0xdfff):
		return fmt.Sprintf(`\u%04x`, r)
	}
	return fmt.Sprintf(`\U%08x`, r)
}

// Class spells a class; it returns the text and the member lists in the order the
// front-end must extract them (they equal e's lists: items of one kind keep their order).
func (s *Speller) Class(e *Expr) string {
	var b strings.Builder
	b.WriteByte('[')
	s.invClass = e.Inv
	if e.Inv {
		b.WriteByte('^')
	}
	// items in a drawn interleaving; a member hyphen goes first
	type item struct {
		kind int // 0 char 1 range 2 class
		idx  int
	}
	var items []item
	hyphen := -1
	// a member hyphen is written raw as the first member, or (drawn) escaped in place: "the
	// same escapes as in string literals are available"
	// (a hyphen that is not the first character member is always escaped in place)
	for i, c := range e.Chars {
		if c == '-' && hyphen < 0 && (i == 0 || s.Boot) {
			hyphen = i
			continue
		}
		items = append(items, item{0, i})
	}
	for i := 0; i+1 < len(e.Ranges); i += 2 {
		items = append(items, item{1, i})
	}
	for i := range e.UClasses {
		items = append(items, item{2, i})
	}
	// interleave while keeping the relative order inside each kind: merge by drawn picks
	queues := [3][]item{}
	for _, it := range items {
		queues[it.kind] = append(queues[it.kind], it)
	}
	var order []item
	for len(queues[0])+len(queues[1])+len(queues[2]) > 0 {
		k := s.u(3, "classorder")
		for len(queues[k]) == 0 {
			k = (k + 1) % 3
		}
		order = append(order, queues[k][0])
		queues[k] = queues[k][1:]
	}
	if hyphen >= 0 {
		if hyphen != 0 {
			// a hyphen that is not the first character member cannot keep its place: the
			// generator only draws hyphens as first character member
			panic("gspec: Speller.Class: hyphen must be the first character member")
		}
		b.WriteByte('-')
	}
	first := hyphen < 0
	for oi, it := range order {
		switch it.kind {
		case 0:
			if e.Chars[it.idx] == '-' {
				// a hyphen that is not the first member stands for itself where the grammar cannot
				// read it as the range operator: behind a range or a class escape, in front of a
				// class escape, as the last member ( [a-c-e] [\pL-z] [a-\pL] [ab-] ); elsewhere
				// (and half of the time anyway) it is written as an escape
				rawOK := !s.Boot && oi > 0 && (order[oi-1].kind != 0 || oi == len(order)-1 || order[oi+1].kind == 2)
				if rawOK && s.u(2, "rawhyphen") == 0 {
					s.feat("raw_hyphen_member")
					b.WriteByte('-')
				} else {
					s.feat("escaped_hyphen")
					b.WriteString(Pick(s.t, []string{`\x2d`, `\055`, `\u002d`}, "hyphenesc"))
				}
			} else {
				b.WriteString(s.classRune(e.Chars[it.idx], first))
			}
		case 1:
			b.WriteString(s.classRune(e.Ranges[it.idx], first) + "-" + s.classRune(e.Ranges[it.idx+1], false))
		default:
			n := e.UClasses[it.idx]
			if len(n) == 1 && strings.Contains("LMNCPZS", n) && s.u(2, "pform") == 0 {
				b.WriteString(`\p` + n)
			} else {
				b.WriteString(`\p{` + n + `}`)
			}
			s.feat("unicode_class")
		}
		first = false
	}
	b.WriteByte(']')
	if e.IC {
		b.WriteByte('i')
	}
	return b.String()
}

// startsWithI reports whether the spelling of e begins with an identifier that starts with i.
func startsWithI(e *Expr) bool {
	switch e.K {
	case KRef, KLabel:
		return strings.HasPrefix(e.Name, "i")
	}
	return false
}

// ---------------------------------------------------------------------------------
// code blocks

var actionBodies = []string{
	"{ return nil, nil }",
	"{\n\treturn nil, nil\n}",
	"{}",
	"{ }",
	"{ if true { return 1, nil }; return \"}\", nil }",
	"{ // } a brace in a comment\n return '{', nil }",
	"{ /* { */ return nil, nil }",
	"{ /** { **/ return nil, nil }",
	"{ /***/ return 1 * 2, nil /* } * } **/ }",
	"{ s := `}`; _ = s; return nil, nil }",
	"{ return \"\\\\\", nil }",
	"{ sep, end := \"\\\\\", \"}\"; _, _ = sep, end; return nil, nil }",
	"{ m := map[string]int{\"{\": 1}; return m, nil }",
	"{ return \"\\\"}\", nil }",
	"{ return '\\'', nil }",
	// a Go comment that starts like the recovery operator (D22)
	"{\n\t//{ see the note above\n\treturn nil, nil\n}",
	"{ //{}}\n return nil, nil }",
}

var predBodies = []string{
	"{ return true, nil }",
	"{ if 1 > 0 { return true, nil }; return false, nil }",
	"{ return \"}\" != \"{\", nil }",
	"{\n\t// }\n\treturn true, nil\n}",
	"{\n\t//{F1} not an operator here\n\treturn true, nil\n}",
}

var stateBodies = []string{
	"{ return nil }",
	"{ c.state[\"}\"] = 1; return nil }",
	"{ if c.state != nil { return nil }; return nil }",
}

// ---------------------------------------------------------------------------------
// expressions

func (s *Speller) expr(g *Grammar, e *Expr, min int) {
	lv := level(e)
	redundant := !s.Boot && lv >= min && s.u(12, "redundantparens") == 0 && e.K != KThrow
	if lv < min || redundant {
		if redundant {
			s.feat("redundant_parens")
		}
		s.w("(")
		s.ws(false)
		s.expr(g, e, lvRecover)
		s.ws(false)
		s.w(")")
		return
	}
	e.P = s.pos()
	switch e.K {
	case KLit:
		s.w(s.Lit(e.Val, e.IC))
	case KClass:
		s.w(s.Class(e))
	case KAny:
		s.w(".")
	case KRef:
		s.w(e.Name)
	case KSeq:
		for i, x := range e.Sub {
			if i > 0 {
				// no blank is needed behind a literal or a class: "x"B , [a]i(B) , "x"i"y" - and
				// `"x"iB` is the literal with the i suffix followed by B (only where the next token
				// would itself begin with an i is the blank kept behind a terminal without suffix)
				prev := e.Sub[i-1]
				if !s.Calm && (prev.K == KLit || prev.K == KClass) && (prev.IC || !startsWithI(x)) && s.u(6, "tight") == 0 {
					s.feat("no_blank_after_terminal")
				} else {
					s.ws(true)
				}
			}
			s.expr(g, x, lvLabel)
		}
	case KChoice:
		for i, x := range e.Sub {
			if i > 0 {
				s.ws(false)
				s.w("/")
				s.ws(false)
			}
			s.expr(g, x, lvAction)
		}
	case KOpt, KStar, KPlus:
		s.expr(g, e.Sub[0], lvPrimary)
		if !s.Boot && s.u(5, "suffixws") == 0 {
			s.ws(false)
		}
		s.w(map[Kind]string{KOpt: "?", KStar: "*", KPlus: "+"}[e.K])
	case KAnd, KNot:
		if e.K == KAnd {
			s.w("&")
		} else {
			s.w("!")
		}
		if !s.Boot && s.u(4, "prefixws") == 0 {
			s.ws(false) // any white space and comments may follow a prefix operator
		}
		switch e.Sub[0].K {
		case KAndCode, KNotCode, KState:
			s.w("(")
			s.ws(false)
			s.expr(g, e.Sub[0], lvRecover)
			s.ws(false)
			s.w(")")
		default:
			s.expr(g, e.Sub[0], lvSuffix)
		}
	case KLabel:
		e.LabelP = s.pos()
		s.w(e.Name)
		if !s.Boot && s.u(4, "labelws") == 0 {
			s.ws(false)
		}
		s.w(":")
		if !s.Boot && s.u(4, "labelws2") == 0 {
			s.ws(false)
		}
		s.expr(g, e.Sub[0], lvPrefix)
	case KAction:
		s.expr(g, e.Sub[0], lvSeq)
		s.ws(false)
		e.CodeP = s.pos()
		if e.Code == "" {
			e.Code = Pick(s.t, actionBodies, "actionbody")
			if s.Boot {
				e.Code = append(actionBodies[:4:4], "{\r\n\treturn nil, nil\r\n}", "{\r\n}")[s.u(6, "bootaction")]
			}
		}
		s.w(e.Code)
	case KAndCode, KNotCode, KState:
		s.w(map[Kind]string{KAndCode: "&", KNotCode: "!", KState: "#"}[e.K])
		if s.u(4, "predws") == 0 {
			s.ws(false) // `&` / `!` / `#`, then any white space and comments, then the code block
		}
		e.CodeP = s.pos()
		if e.Code == "" {
			if e.K == KState {
				e.Code = Pick(s.t, stateBodies, "statebody")
			} else {
				e.Code = Pick(s.t, predBodies, "predbody")
			}
		}
		s.w(e.Code)
	case KThrow:
		s.w("%{" + e.Name + "}")
	case KRecover:
		s.expr(g, e.Sub[0], lvRecover)
		s.ws(false)
		s.w("//{")
		s.ws(false)
		for i, l := range e.Labels {
			if i > 0 {
				s.ws(false)
				s.w(",")
				s.ws(false)
			}
			s.w(l)
		}
		s.ws(false)
		s.w("}")
		s.ws(false)
		s.expr(g, e.Sub[1], lvChoice)
	default:
		panic("gspec: spell: unknown kind " + string(e.K))
	}
}

// Spell writes the whole grammar; it fills the position fields of g and returns the text.
func (s *Speller) Spell(g *Grammar) string {
	if !s.Boot && s.u(3, "leadingws") == 0 {
		s.w(Pick(s.t, []string{"\n", "  ", "// header\n", "/* header */\n", "\n\n"}, "leading"))
	}
	if g.Init != "" {
		g.InitP = s.pos()
		s.w(g.Init)
		s.eos(false)
	}
	ops := []string{"=", "<-", "←", "⟵"}
	for i, r := range g.Rules {
		if !s.Boot && s.u(4, "ruleindent") == 0 {
			s.w(" ")
		}
		r.P = s.pos()
		s.w(r.Name)
		s.ws(false)
		if r.Display != "" {
			r.DisplayP = s.pos()
			raw := s.Lit([]byte(r.Display), false)
			r.DisplayRaw = raw
			s.w(raw)
			s.ws(false)
		}
		op := ops[s.u(len(ops), "defop")]
		if s.Boot {
			op = ops[s.u(3, "defop")]
		}
		if op != "=" {
			s.feat("definition_operator")
		}
		s.w(op)
		s.ws(false)
		s.expr(g, r.Expr, lvRecover)
		s.eos(i == len(g.Rules)-1)
	}
	return string(s.b)
}
