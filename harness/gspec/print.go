package gspec

import (
	"fmt"
	"strconv"
	"strings"
	"unicode"
	"unicode/utf8"
)

// Binding strength levels of the PEG syntax (doc.go / grammar/pigeon.peg):
// recover < choice < action < sequence < label < prefix < suffix < primary.
const (
	lvRecover = iota
	lvChoice
	lvAction
	lvSeq
	lvLabel
	lvPrefix
	lvSuffix
	lvPrimary
)

func level(e *Expr) int {
	switch e.K {
	case KRecover:
		return lvRecover
	case KChoice:
		return lvChoice
	case KAction:
		return lvAction
	case KSeq:
		return lvSeq
	case KLabel, KThrow:
		return lvLabel
	case KAnd, KNot:
		return lvPrefix
	case KOpt, KStar, KPlus:
		return lvSuffix
	}
	return lvPrimary
}

// PrintOpts control the canonical printer.
type PrintOpts struct {
	// NoCode prints code blocks as "{ return nil, nil }"-style stubs without recorder calls
	// (used by tool-level checks that never compile the output).
	StubCode bool
	// NoInit omits the initializer.
	NoInit bool
	// ExtraInit is appended inside the initializer.
	ExtraInit string
	// Layout: 0 one rule per paragraph; 1 all rules on one source line, separated by " ; ";
	// 2 two rules per line.
	Layout int
}

// PrintCanonical spells the grammar in one fixed way (one rule per line, `=`,
// double-quoted literals, minimal parentheses).
func PrintCanonical(g *Grammar) string { return Print(g, PrintOpts{}) }

// Print spells the grammar canonically with options.
func Print(g *Grammar, o PrintOpts) string {
	var b strings.Builder
	if !o.NoInit {
		b.WriteString("{\npackage " + g.Pkg + "\n\n")
		if !o.StubCode {
			b.WriteString("import \"verif/harness/vrt\"\n")
			// the initializer is copied verbatim: percent signs are not format verbs
			b.WriteString("\nconst _ = 7 % 3 // 100%d %s %%\n")
		}
		if o.ExtraInit != "" {
			b.WriteString(o.ExtraInit + "\n")
		}
		b.WriteString("}\n\n")
	}
	for i, r := range g.Rules {
		if i > 0 && r.Name == g.Decoy {
			b.WriteString(r.Name + " = \"decoy\" [0-9]\n\n")
		}
		b.WriteString(r.Name)
		if r.Display != "" {
			b.WriteString(" " + strconv.Quote(r.Display))
		}
		b.WriteString(" = ")
		printExpr(&b, g, r.Expr, lvRecover, o)
		switch {
		case o.Layout == 1 && i < len(g.Rules)-1, o.Layout == 2 && i%2 == 0 && i < len(g.Rules)-1:
			b.WriteString(" ; ")
		default:
			b.WriteString("\n\n")
		}
	}
	return b.String()
}

// ExprText prints one expression canonically (no code recorder; for messages).
func ExprText(g *Grammar, e *Expr) string {
	var b strings.Builder
	printExpr(&b, g, e, lvRecover, PrintOpts{StubCode: true})
	return b.String()
}

func printExpr(b *strings.Builder, g *Grammar, e *Expr, min int, o PrintOpts) {
	lv := level(e)
	if lv < min {
		b.WriteString("( ")
		printExpr(b, g, e, lvRecover, o)
		b.WriteString(" )")
		return
	}
	switch e.K {
	case KLit:
		b.WriteString(LitText(e))
	case KClass:
		b.WriteString(ClassText(e))
	case KAny:
		b.WriteString(".")
	case KRef:
		b.WriteString(e.Name)
	case KSeq:
		for i, s := range e.Sub {
			if i > 0 {
				b.WriteString(" ")
			}
			printExpr(b, g, s, lvLabel, o)
		}
	case KChoice:
		for i, s := range e.Sub {
			if i > 0 {
				b.WriteString(" / ")
			}
			printExpr(b, g, s, lvAction, o)
		}
	case KOpt, KStar, KPlus:
		printExpr(b, g, e.Sub[0], lvPrimary, o)
		b.WriteString(map[Kind]string{KOpt: "?", KStar: "*", KPlus: "+"}[e.K])
	case KAnd, KNot:
		if e.K == KAnd {
			b.WriteString("&")
		} else {
			b.WriteString("!")
		}
		// `&{` / `!{` / `&&{` would be read as code predicates: a code-predicate or
		// state operand is always parenthesised.
		switch e.Sub[0].K {
		case KAndCode, KNotCode, KState:
			b.WriteString("( ")
			printExpr(b, g, e.Sub[0], lvRecover, o)
			b.WriteString(" )")
		default:
			printExpr(b, g, e.Sub[0], lvSuffix, o)
		}
	case KLabel:
		b.WriteString(e.Name + ":")
		printExpr(b, g, e.Sub[0], lvPrefix, o)
	case KAction:
		printExpr(b, g, e.Sub[0], lvSeq, o)
		b.WriteString(" " + CodeText(g, e, o))
	case KAndCode:
		b.WriteString("&" + CodeText(g, e, o))
	case KNotCode:
		b.WriteString("!" + CodeText(g, e, o))
	case KState:
		b.WriteString("#" + CodeText(g, e, o))
	case KThrow:
		b.WriteString("%{" + e.Name + "}")
	case KRecover:
		printExpr(b, g, e.Sub[0], lvRecover, o)
		b.WriteString(" //{" + strings.Join(e.Labels, ", ") + "} ")
		printExpr(b, g, e.Sub[1], lvChoice, o)
	default:
		panic("gspec: print: unknown kind " + string(e.K))
	}
}

// LitText is the canonical spelling of a literal: Go double-quoted, i suffix.
func LitText(e *Expr) string {
	s := strconv.Quote(string(e.Val))
	if e.Sp != 0 {
		s = litSpelled(e)
	}
	if e.IC {
		s += "i"
	}
	return s
}

// LitWant is how the literal is shown in "expected" lists: the Go-quoted value plus i.
func LitWant(e *Expr) string {
	s := strconv.Quote(string(e.Val))
	if e.IC {
		s += "i"
	}
	return s
}

// spForm is the escape form the spelling seed sp gives to rune r: 0 canonical, 1 octal,
// 2 \x, 3 \u, 4 \U, 5 the rune itself when it is not ASCII (also U+FFFD, symbols, marks).
func spForm(sp int, r rune) int {
	if sp == 0 {
		return 0
	}
	h := uint32(sp)*2654435761 + uint32(r)*40503
	h ^= h >> 13
	return int(h % 6)
}

// rawOK: the rune can stand for itself in grammar source (form 5).
func rawOK(r rune) bool {
	return r >= 0x80 && r != 0x85 && r != 0x2028 && r != 0x2029 && utf8.ValidRune(r) && r != 0xfeff
}

// litSpelled spells a literal value (valid UTF-8) as its spelling seed says: single-quoted
// (one rune only) or raw when the seed asks for it and the value allows it, otherwise
// double-quoted with per-rune escape forms (\ooo and \xhh spell the bytes of the encoding).
func litSpelled(e *Expr) string {
	val := string(e.Val)
	rs := []rune(val)
	quote := byte('"')
	switch e.Sp % 3 {
	case 1:
		if len(rs) == 1 && rs[0] != '\n' {
			quote = '\''
		}
	case 2:
		if !strings.ContainsAny(val, "`\r") {
			return "`" + val + "`"
		}
	}
	var b strings.Builder
	b.WriteByte(quote)
	for _, r := range rs {
		enc := string(r)
		form := spForm(e.Sp, r)
		if quote == '\'' && len(enc) > 1 && (form == 1 || form == 2) {
			form = 3 // a byte escape above 0x7f is not one rune
		}
		switch {
		case form == 1:
			for i := 0; i < len(enc); i++ {
				fmt.Fprintf(&b, `\%03o`, enc[i])
			}
		case form == 2:
			for i := 0; i < len(enc); i++ {
				fmt.Fprintf(&b, `\x%02x`, enc[i])
			}
		case form == 3 && r < 0x10000:
			fmt.Fprintf(&b, `\u%04x`, r)
		case form == 3 || form == 4:
			fmt.Fprintf(&b, `\U%08x`, r)
		case form == 5 && rawOK(r):
			b.WriteString(enc)
		default:
			q := strconv.Quote(enc)
			q = q[1 : len(q)-1]
			switch {
			case r == rune(quote):
				q = `\` + string(r)
			case r == '"':
				q = `"`
			}
			b.WriteString(q)
		}
	}
	b.WriteByte(quote)
	return b.String()
}

func classRuneSp(sp int, r rune) string {
	switch form := spForm(sp, r); {
	case form == 1 && r < 0x100:
		return fmt.Sprintf(`\%03o`, r)
	case form == 2 && r < 0x100:
		return fmt.Sprintf(`\x%02x`, r)
	case form == 3 && r < 0x10000:
		return fmt.Sprintf(`\u%04x`, r)
	case form == 4 || form == 3:
		return fmt.Sprintf(`\U%08x`, r)
	case form == 5 && rawOK(r), r == utf8.RuneError && sp%2 == 1:
		// (U+FFFD written as itself is what a careless "skip undecodable bytes" swallows)
		return string(r)
	}
	return classRune(r)
}

func classRune(r rune) string {
	switch {
	case r == ']' || r == '\\':
		return `\` + string(r)
	case r == '^' || r == '-':
		return fmt.Sprintf(`\x%02x`, r)
	case r < 0x80 && r > 0x20 && r != 0x7f:
		return string(r)
	case r >= 0x80 && (unicode.IsLetter(r) || unicode.IsDigit(r)):
		return string(r)
	case r < 0x100:
		return fmt.Sprintf(`\x%02x`, r)
	case r < 0x10000:
		return fmt.Sprintf(`\u%04x`, r)
	}
	return fmt.Sprintf(`\U%08x`, r)
}

// ClassText is the canonical source text of a class (this is also what pigeon shows
// for the class in "expected" lists). A member hyphen is written raw as the first
// member (an escaped hyphen between two members is read as a range operator by
// pigeon, see DESIGN D15); all other members are written so that no member is read as
// an operator.
func ClassText(e *Expr) string {
	var b strings.Builder
	b.WriteString("[")
	if e.Inv {
		b.WriteString("^")
	}
	hyphen := false
	for _, r := range e.Chars {
		if r == '-' {
			hyphen = true
		}
	}
	if hyphen {
		b.WriteString("-")
	}
	for _, r := range e.Chars {
		if r == '-' {
			continue
		}
		b.WriteString(classRuneSp(e.Sp, r))
	}
	for i := 0; i+1 < len(e.Ranges); i += 2 {
		lo, hi := e.Ranges[i], e.Ranges[i+1]
		b.WriteString(classRangeEnd(e.Sp, lo) + "-" + classRangeEnd(e.Sp, hi))
	}
	for _, c := range e.UClasses {
		if len(c) == 1 {
			b.WriteString(`\p` + c)
		} else {
			b.WriteString(`\p{` + c + `}`)
		}
	}
	b.WriteString("]")
	if e.IC {
		b.WriteString("i")
	}
	return b.String()
}

func classRangeEnd(sp int, r rune) string {
	if r == '-' && spForm(sp, r) == 0 {
		// a hyphen as a range end point cannot be written unambiguously
		return `\x2d`
	}
	return classRuneSp(sp, r)
}

func quoteList(ss []string) string {
	var b strings.Builder
	b.WriteString("[]string{")
	for i, s := range ss {
		if i > 0 {
			b.WriteString(", ")
		}
		b.WriteString(strconv.Quote(s))
	}
	b.WriteString("}")
	return b.String()
}

func anyList(ss []string) string {
	return "[]any{" + strings.Join(ss, ", ") + "}"
}

// OpsScript encodes state ops as the script string the recorder interprets.
func OpsScript(ops []StateOp) string {
	parts := make([]string, len(ops))
	for i, op := range ops {
		parts[i] = fmt.Sprintf("%s %s %d", op.Op, op.Key, op.Val)
	}
	return strings.Join(parts, ";")
}

// CodeText renders the code block of a code-carrying node: one call into the recorder
// with everything the block can see.
func CodeText(g *Grammar, e *Expr, o PrintOpts) string {
	if e.Code != "" {
		return e.Code
	}
	if o.StubCode {
		switch e.K {
		case KAction:
			return "{ return nil, nil }"
		case KAndCode, KNotCode:
			return "{ return true, nil }"
		default:
			return "{ return nil }"
		}
	}
	c := g.Receiver()
	ctx := fmt.Sprintf("%s.globalStore, %d, %s.text, %s.pos.line, %s.pos.col, %s.pos.offset, %s, %s",
		c, e.ID, c, c, c, c, quoteList(e.Scope), anyList(e.Scope))
	st := "nil"
	if g.HasState || g.StateIn {
		st = "map[string]any(" + c + ".state)"
	}
	if g.IndirectState && g.HasState && e.K != KState {
		// (a block need not mention the store to use it: it may hand its receiver to a helper)
		st = "verifStateOf(" + c + ")"
	}
	switch e.K {
	case KAction:
		return "{ return vrt.Act(" + st + ", " + ctx + ") }"
	case KAndCode, KNotCode:
		if e.Lim > 0 {
			return "{ return vrt.PredLim(" + st + ", " + ctx + ", " + strconv.Itoa(e.Lim) + ") }"
		}
		return "{ return vrt.Pred(" + st + ", " + ctx + ") }"
	case KState:
		return "{ return vrt.State(" + st + ", " + ctx + ", " + strconv.Quote(OpsScript(e.Ops)) + ") }"
	}
	panic("gspec: CodeText on " + string(e.K))
}
