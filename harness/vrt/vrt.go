// Package vrt is the recorder runtime linked into every generated parser of the
// harness: the code blocks of generated grammars call it with everything they can
// see, and it records an event trace and answers from the per-case plan.
package vrt

import (
	"errors"
	"fmt"
	"sort"
	"strconv"
	"strings"
	"sync"
)

// Node is what every action returns: a pure function of the block id, text, pos and
// labels, so the value returned by Parse is a deep record of the parse.
type Node struct {
	ID    int
	Text  string
	Line  int
	Col   int
	Off   int
	Names []string
	Vals  []any
}

// CList is a state value with reference semantics that implements the documented
// Cloner contract (Clone() any, deep copy).
type CList struct{ Items []int }

// Clone implements the generated parser's Cloner interface.
func (l *CList) Clone() any {
	c := &CList{Items: make([]int, len(l.Items))}
	copy(c.Items, l.Items)
	return c
}

// Event is one code-block invocation as seen by the block.
type Event struct {
	Kind   string `json:"kind"` // act | pred | state
	ID     int    `json:"id"`
	Text   string `json:"text"`
	Line   int    `json:"line"`
	Col    int    `json:"col"`
	Off    int    `json:"off"`
	Labels string `json:"labels"` // canonical "name=value;..." of the labels received
	State  string `json:"state"`  // canonical snapshot of c.state as seen on entry ("" when not passed)
	Global string `json:"global"` // canonical snapshot of the globalStore counters on entry
	Ret    string `json:"ret,omitempty"`
}

func (e Event) String() string {
	return fmt.Sprintf("%s#%d text=%q pos=%d:%d(%d) labels{%s} state{%s} global{%s}", e.Kind, e.ID, e.Text, e.Line, e.Col, e.Off, e.Labels, e.State, e.Global)
}

// Fault makes the Nth (1-based) invocation of block ID misbehave (Nth 0 = every invocation,
// which keeps the block a pure function of its arguments).
type Fault struct {
	ID   int    `json:"id"`
	Nth  int    `json:"nth"`
	Kind string `json:"kind"` // err | panic_err | panic_str | panic_int
	Msg  string `json:"msg"`
}

// Plan is the per-case script of what code blocks answer.
type Plan struct {
	// Pred[(2*id+parity) % len] is the boolean a code predicate returns, where parity is the
	// parity of the total length of the canonical label values it received.
	Pred   []bool  `json:"pred,omitempty"`
	Faults []Fault `json:"faults,omitempty"`
	// TryStateWrites makes actions and predicates write to c.state (must be discarded).
	TryStateWrites bool `json:"try_state_writes,omitempty"`
}

// PredAnswer is the pure function code predicates compute.
func (p *Plan) PredAnswer(id int, labels string) bool {
	if p == nil || len(p.Pred) == 0 {
		return true
	}
	return p.Pred[(2*id+len(labels)%2)%len(p.Pred)]
}

// InjectedError is the error type returned/panicked by faulty blocks, so the harness can
// check that Inner is the identical value.
type InjectedError struct {
	ID  int
	Nth int
	Msg string
}

func (e *InjectedError) Error() string { return e.Msg }

// InjectedJoin is an injected error that holds other errors the way errors.Join and a
// fmt.Errorf with several %w do (fault kind "err_join" / "panic_join"): the error a block
// returns is recorded as it is, whatever it wraps.
type InjectedJoin struct {
	*InjectedError
	parts []error
}

func (e *InjectedJoin) Unwrap() []error { return e.parts }

// InjectedOf returns the injected error behind v (itself, or the one an InjectedJoin carries).
func InjectedOf(v any) (*InjectedError, bool) {
	switch x := v.(type) {
	case *InjectedError:
		return x, true
	case *InjectedJoin:
		return x.InjectedError, true
	}
	return nil, false
}

// Ctx is the per-call recorder; it travels through the GlobalStore("ctx", ctx) option.
type Ctx struct {
	Plan   *Plan
	Events []Event
	counts map[int]int
	// Injected lists the errors handed to the parser, in order.
	Injected []*InjectedError
	// MaxEvents stops runaway parses from exhausting memory (0 = 200000).
	MaxEvents int
	Overflow  bool
}

// NewCtx creates a recorder for one Parse call.
func NewCtx(p *Plan) *Ctx { return &Ctx{Plan: p, counts: map[int]int{}} }

func ctxOf(gs map[string]any) *Ctx {
	c, _ := gs["ctx"].(*Ctx)
	return c
}

func (c *Ctx) record(ev Event) {
	max := c.MaxEvents
	if max == 0 {
		max = 200000
	}
	if len(c.Events) >= max {
		c.Overflow = true
		return
	}
	c.Events = append(c.Events, ev)
}

func (c *Ctx) fault(id int) (*Fault, int) {
	c.counts[id]++
	n := c.counts[id]
	if c.Plan == nil {
		return nil, n
	}
	for i := range c.Plan.Faults {
		f := &c.Plan.Faults[i]
		if f.ID == id && (f.Nth == n || f.Nth == 0) {
			return f, n
		}
	}
	return nil, n
}

// fire performs the fault: returns an error to return, or panics.
func (c *Ctx) fire(f *Fault, n int) error {
	ie := &InjectedError{ID: f.ID, Nth: n, Msg: f.Msg}
	switch f.Kind {
	case "err":
		c.Injected = append(c.Injected, ie)
		return ie
	case "err_join":
		c.Injected = append(c.Injected, ie)
		return &InjectedJoin{InjectedError: ie, parts: []error{errors.New("part one"), errors.New("part two")}}
	case "panic_join":
		c.Injected = append(c.Injected, ie)
		panic(&InjectedJoin{InjectedError: ie, parts: []error{errors.New("part one"), errors.New("part two")}})
	case "panic_err":
		c.Injected = append(c.Injected, ie)
		panic(ie)
	case "panic_str":
		panic(f.Msg)
	case "panic_int":
		// a value that is neither an error nor a string nor a Stringer
		panic(PanicInt(40 + len(f.Msg)))
	}
	return nil
}

// PanicInt is the value of a "panic_int" fault.
func PanicInt(n int) int { return n }

// GlobalSnapshot is the canonical text of the int counters of a globalStore.
func GlobalSnapshot(gs map[string]any) string {
	keys := make([]string, 0, len(gs))
	for k, v := range gs {
		if _, ok := v.(int); ok {
			keys = append(keys, k)
		}
	}
	sort.Strings(keys)
	var b strings.Builder
	for i, k := range keys {
		if i > 0 {
			b.WriteByte(',')
		}
		b.WriteString(k + "=" + strconv.Itoa(gs[k].(int)))
	}
	return b.String()
}

// StateSnapshot is the canonical text of a state store.
func StateSnapshot(st map[string]any) string {
	keys := make([]string, 0, len(st))
	for k := range st {
		keys = append(keys, k)
	}
	sort.Strings(keys)
	var b strings.Builder
	for i, k := range keys {
		if i > 0 {
			b.WriteByte(',')
		}
		b.WriteString(k + "=")
		switch v := st[k].(type) {
		case int:
			b.WriteString(strconv.Itoa(v))
		case *CList:
			b.WriteString(fmt.Sprint(v.Items))
		default:
			fmt.Fprintf(&b, "?%T", v)
		}
	}
	return b.String()
}

// LabelsText is the canonical text of the labels a block received.
func LabelsText(names []string, vals []any) string {
	var b strings.Builder
	for i, n := range names {
		if i > 0 {
			b.WriteByte(';')
		}
		b.WriteString(n + "=")
		if i < len(vals) {
			b.WriteString(Canon(vals[i]))
		} else {
			b.WriteString("<missing>")
		}
	}
	return b.String()
}

func (c *Ctx) event(kind string, st map[string]any, gs map[string]any, id int, text []byte, line, col, off int, names []string, vals []any) Event {
	ev := Event{Kind: kind, ID: id, Text: string(text), Line: line, Col: col, Off: off,
		Labels: LabelsText(names, vals), Global: GlobalSnapshot(gs)}
	if st != nil {
		ev.State = StateSnapshot(st)
	}
	return ev
}

// Act is the body of every action block.
func Act(st map[string]any, gs map[string]any, id int, text []byte, line, col, off int, names []string, vals []any) (any, error) {
	c := ctxOf(gs)
	n := &Node{ID: id, Text: string(text), Line: line, Col: col, Off: off, Names: names, Vals: vals}
	if c == nil {
		return n, nil
	}
	c.record(c.event("act", st, gs, id, text, line, col, off, names, vals))
	if st != nil && c.Plan != nil && c.Plan.TryStateWrites {
		st["_w"] = id
		if l, ok := st["l"].(*CList); ok {
			l.Items = append(l.Items, -id)
		}
	}
	if f, k := c.fault(id); f != nil {
		return n, c.fire(f, k)
	}
	return n, nil
}

// Pred is the body of every code predicate.
func Pred(st map[string]any, gs map[string]any, id int, text []byte, line, col, off int, names []string, vals []any) (bool, error) {
	c := ctxOf(gs)
	if c == nil {
		return true, nil
	}
	ev := c.event("pred", st, gs, id, text, line, col, off, names, vals)
	ans := c.Plan.PredAnswer(id, ev.Labels)
	ev.Ret = strconv.FormatBool(ans)
	c.record(ev)
	if st != nil && c.Plan != nil && c.Plan.TryStateWrites {
		st["_w"] = id
		if l, ok := st["l"].(*CList); ok {
			l.Items = append(l.Items, -id)
		}
	}
	if f, k := c.fault(id); f != nil {
		return ans, c.fire(f, k)
	}
	return ans, nil
}

// PredLim is Pred for a block that answers "state[k1] < lim" (0 when k1 is missing or the
// store does not exist).
func PredLim(st map[string]any, gs map[string]any, id int, text []byte, line, col, off int, names []string, vals []any, lim int) (bool, error) {
	c := ctxOf(gs)
	if c == nil {
		return false, nil
	}
	ev := c.event("pred", st, gs, id, text, line, col, off, names, vals)
	ans := StateLess(st, lim)
	ev.Ret = strconv.FormatBool(ans)
	c.record(ev)
	if f, k := c.fault(id); f != nil {
		return ans, c.fire(f, k)
	}
	return ans, nil
}

// StateLess reports whether the int stored at k1 is below lim.
func StateLess(st map[string]any, lim int) bool {
	v, _ := st["k1"].(int)
	return v < lim
}

// ApplyOps runs a state script against a store and a globalStore.
func ApplyOps(st map[string]any, gs map[string]any, script string) {
	if script == "" {
		return
	}
	for _, part := range strings.Split(script, ";") {
		f := strings.Fields(part)
		if len(f) != 3 {
			continue
		}
		v, _ := strconv.Atoi(f[2])
		k := f[1]
		switch f[0] {
		case "set":
			st[k] = v
		case "incr":
			cur, _ := st[k].(int)
			st[k] = cur + 1
		case "del":
			delete(st, k)
		case "app":
			l, ok := st[k].(*CList)
			if !ok {
				l = &CList{}
				st[k] = l
			}
			l.Items = append(l.Items, v)
		case "gincr":
			cur, _ := gs[k].(int)
			gs[k] = cur + 1
		}
	}
}

// State is the body of every state-change block.
func State(st map[string]any, gs map[string]any, id int, text []byte, line, col, off int, names []string, vals []any, script string) error {
	c := ctxOf(gs)
	if c != nil {
		c.record(c.event("state", st, gs, id, text, line, col, off, names, vals))
	}
	ApplyOps(st, gs, script)
	if c != nil {
		if f, k := c.fault(id); f != nil {
			return c.fire(f, k)
		}
	}
	return nil
}

// Canon renders a parse value canonically. A nil []any and an empty []any are both
// "[]" (pigeon returns a typed nil slice for zero iterations); nil is "nil".
func Canon(v any) string {
	var b strings.Builder
	canon(&b, v, 0)
	return b.String()
}

func canon(b *strings.Builder, v any, depth int) {
	if depth > 200 {
		b.WriteString("<deep>")
		return
	}
	switch x := v.(type) {
	case nil:
		b.WriteString("nil")
	case []byte:
		b.WriteString("b" + strconv.Quote(string(x)))
	case []any:
		b.WriteByte('[')
		for i, e := range x {
			if i > 0 {
				b.WriteByte(',')
			}
			canon(b, e, depth+1)
		}
		b.WriteByte(']')
	case *Node:
		if x == nil {
			b.WriteString("N<nil>")
			return
		}
		fmt.Fprintf(b, "N%d{%q@%d:%d(%d)", x.ID, x.Text, x.Line, x.Col, x.Off)
		for i, n := range x.Names {
			b.WriteString(" " + n + "=")
			if i < len(x.Vals) {
				canon(b, x.Vals[i], depth+1)
			}
		}
		b.WriteByte('}')
	case string:
		b.WriteString("s" + strconv.Quote(x))
	case int:
		b.WriteString(strconv.Itoa(x))
	case bool:
		b.WriteString(strconv.FormatBool(x))
	default:
		fmt.Fprintf(b, "?%T", v)
	}
}

// ---------------------------------------------------------------------------------
// Registry of generated parser packages (filled by the adapters' init functions).

// Request is one Parse call.
type Request struct {
	Entry        string // "" = default entry (no Entrypoint option); "\x00empty" = Entrypoint("")
	Filename     string
	Input        []byte
	Memoize      bool
	Debug        bool
	Stats        bool
	MaxExpr      uint64
	AllowInvalid bool
	NoRecover    bool
	InitState    map[string]any
	Globals      map[string]any
	Ctx          *Ctx
	// ViaReader: call ParseReader on a reader over Input instead of Parse.
	ViaReader bool
	// DupOpts: every Option value is passed twice in the one call (an option value is
	// immutable: applying it a second time sets the same thing).
	DupOpts bool
	// PoisonBefore > 0: before the call, one more call on the same input with the same options
	// (without the recorder) under MaxExpressions(PoisonBefore) - a call that is usually cut
	// short by the budget - whose result is thrown away. CallAfter: after the call, one more
	// call through the same entry point on other bytes, before anyone looks at the value.
	// Neither may change what the call in the middle returns.
	PoisonBefore uint64
	CallAfter    bool
	MemoExtraOK  bool // the extra calls may memoize too (grammars on which every memoizing parse ends)
	// OptOrder: the option list is rotated by this much and, when odd, reversed (options are
	// independent setters: the order in which they are given does not matter).
	OptOrder int
	// ViaFile: write Input to the file named Filename and call ParseFile on it.
	ViaFile bool
	// WarmStats (with Stats): the Stats value handed to the parse has already been used by an
	// earlier parse of the same input (without a recorder and without a budget).
	WarmStats bool
}

// ErrRec describes one element of the returned error list.
type ErrRec struct {
	Msg           string
	IsParserError bool
	Inner         error
}

// Response is everything observable from one Parse call through the exported API.
type Response struct {
	Value       any
	HasErr      bool
	IsErrList   bool
	ErrType     string
	ErrText     string
	Errs        []ErrRec
	WarmExprCnt uint64 // Stats.ExprCnt before the parse (WarmStats)
	Panicked    bool
	PanicVal    any
	ExprCnt     uint64
	HasStats    bool
	ChoiceAlts  int
	ChoiceCnt  string // canonical text of Stats.ChoiceAltCnt (sorted)
	Globals     map[string]any
}

// Pkg describes a registered generated parser.
type Pkg struct {
	Name string
	Run  func(*Request) *Response
	// capabilities of the flag set the package was generated with
	HasMemo      bool // Memoize/Debug/Statistics exist
	HasInitState bool
	// RunShared makes one option list from the first request (entry, MaxExpr, AllowInvalid,
	// Memoize; no recorder) and passes that same list to one Parse call per request -
	// sequentially or, from a barrier, concurrently - as a caller does that keeps its options
	// in a variable.
	RunShared func(reqs []*Request, concurrent bool) []*Response
}

var (
	regMu sync.Mutex
	reg   = map[string]*Pkg{}
)

// Register adds a generated package.
func Register(p *Pkg) {
	regMu.Lock()
	defer regMu.Unlock()
	reg[p.Name] = p
}

// Lookup finds a registered package.
func Lookup(name string) *Pkg {
	regMu.Lock()
	defer regMu.Unlock()
	return reg[name]
}

// Names lists registered packages, sorted.
func Names() []string {
	regMu.Lock()
	defer regMu.Unlock()
	out := make([]string, 0, len(reg))
	for k := range reg {
		out = append(out, k)
	}
	sort.Strings(out)
	return out
}

// ErrNoSuchPkg is returned by helpers when a package is missing.
var ErrNoSuchPkg = errors.New("vrt: no such package")

// ChoiceCounters renders Stats.ChoiceAltCnt canonically: "key{alt:n,alt:n};..." sorted.
func ChoiceCounters(m map[string]map[string]int) string {
	keys := make([]string, 0, len(m))
	for k := range m {
		keys = append(keys, k)
	}
	sort.Strings(keys)
	var b strings.Builder
	for _, k := range keys {
		b.WriteString(k + "{")
		alts := make([]string, 0, len(m[k]))
		for a := range m[k] {
			alts = append(alts, a)
		}
		sort.Strings(alts)
		for i, a := range alts {
			if i > 0 {
				b.WriteString(",")
			}
			b.WriteString(a + ":" + strconv.Itoa(m[k][a]))
		}
		b.WriteString("};")
	}
	return b.String()
}
