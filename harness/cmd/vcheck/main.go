// Command vcheck is the driver of all checks:
//
//	vcheck <Cxx> [--tier quick|thorough] [--replay file]
//
// Exit status: 0 the property held on everything explored; 1 a violation was found
// (a line "VIOLATION property=<id> replay=<path>" is printed); 2 infrastructure error or
// inconclusive run.
package main

import (
	"fmt"
	"os"
	"strconv"
	"strings"

	"verif/harness/check"
)

func main() {
	if len(os.Args) < 2 {
		fmt.Fprintln(os.Stderr, "usage: vcheck <property> [--tier quick|thorough] [--replay file] [--keep]")
		os.Exit(2)
	}
	o := check.Options{Property: os.Args[1], Tier: os.Getenv("VERIF_TIER"), Seed: 1}
	if s := os.Getenv("VERIF_SEED"); s != "" {
		if n, err := strconv.ParseInt(s, 10, 64); err == nil {
			o.Seed = n
		}
	}
	args := os.Args[2:]
	for i := 0; i < len(args); i++ {
		switch args[i] {
		case "--tier":
			i++
			if i < len(args) {
				o.Tier = args[i]
			}
		case "--replay":
			i++
			if i < len(args) {
				o.Replay = args[i]
			}
		case "--keep":
			o.Keep = true
		case "--repo":
			i++
			if i < len(args) {
				o.Repo = args[i]
			}
		case "--grammars":
			i++
			if i < len(args) {
				o.Grammars, _ = strconv.Atoi(args[i])
			}
		case "--cases":
			i++
			if i < len(args) {
				o.Cases, _ = strconv.Atoi(args[i])
			}
		default:
			if strings.HasPrefix(args[i], "--tier=") {
				o.Tier = strings.TrimPrefix(args[i], "--tier=")
			} else {
				fmt.Fprintln(os.Stderr, "vcheck: unknown argument", args[i])
				os.Exit(2)
			}
		}
	}
	if o.Tier == "" {
		o.Tier = "quick"
	}
	os.Exit(check.Main(o))
}
