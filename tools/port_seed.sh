#!/bin/bash
# usage: port_seed.sh <seeded/NAME dir>
# Ports a seeded change whose patch.diff no longer applies to /repo's HEAD (the tree moved on
# through fix: commits): three-way merge of the hand-written files (the blobs the patch was made
# against are still in /repo's object store), regeneration of the generated ones
# (builder/generated_static_code.go from builder/static_code.go, pigeon.go from
# grammar/pigeon.peg with the project's own tools), then the demonstration must still pass on
# /repo and fail on the changed tree. On success patch.diff is replaced and meta.json gets a note.
set -u
d=$(cd "$1" && pwd)
wt=$(mktemp -d /tmp/portwt.XXXXXX); rmdir $wt
git -C /repo worktree add -q --detach $wt HEAD || exit 2
trap 'git -C /repo worktree remove --force $wt >/dev/null 2>&1; rm -rf $wt' EXIT
if git -C $wt apply --check $d/patch.diff 2>/dev/null; then echo "PORT $(basename $d): applies as it is"; exit 0; fi
cd $wt
if ! git apply --3way --exclude=builder/generated_static_code.go --exclude=pigeon.go $d/patch.diff >/tmp/port.log 2>&1; then
  echo "PORT $(basename $d): three-way merge failed"; tail -5 /tmp/port.log; exit 1
fi
if grep -q '^<<<<<<<' $(git diff --name-only HEAD) 2>/dev/null; then echo "PORT $(basename $d): conflict markers left"; exit 1; fi
if grep -q 'builder/static_code.go' $d/patch.diff; then
  go run ./bootstrap/cmd/static_code_generator builder/static_code.go builder/generated_static_code.go staticCode || exit 1
fi
if grep -q 'grammar/pigeon.peg' $d/patch.diff; then
  go build -o $wt/bin/bootstrap-pigeon ./bootstrap/cmd/bootstrap-pigeon && $wt/bin/bootstrap-pigeon grammar/pigeon.peg > pigeon.go.new && mv pigeon.go.new pigeon.go || exit 1
  rm -rf $wt/bin
fi
git add -A >/dev/null 2>&1
git diff --cached HEAD > /tmp/ported.diff
go build ./... || { echo "PORT $(basename $d): does not build"; exit 1; }
bash $d/demo/run.sh /repo >/dev/null 2>&1; a=$?
bash $d/demo/run.sh $wt >/dev/null 2>&1; b=$?
if [ $a -ne 0 ] || [ $b -eq 0 ]; then echo "PORT $(basename $d): demonstration: /repo exit=$a, changed tree exit=$b - not kept"; exit 1; fi
if ! go test -vet=off -count=1 ./... >/tmp/port_test.log 2>&1; then echo "PORT $(basename $d): the suite fails on the ported change"; exit 1; fi
cp /tmp/ported.diff $d/patch.diff
python3 - "$d" <<'PY'
import json,sys,subprocess
d=sys.argv[1]
m=json.load(open(d+'/meta.json'))
h=subprocess.check_output(['git','-C','/repo','rev-parse','--short','HEAD']).decode().strip()
note=m.get('note') or ''
add='ported to /repo HEAD %s (three-way merge of the hand-written files, generated files regenerated; demonstration and suite re-confirmed)'%h
m['note']=(note+'; ' if note else '')+add
json.dump(m,open(d+'/meta.json','w'),indent=1,ensure_ascii=False)
PY
echo "PORT $(basename $d): ported (demo /repo=$a changed=$b)"
