#!/usr/bin/env python3
"""Regenerates the table of DESIGN.md section 11 from seeded/*/meta.json."""
import json, glob, os, re
rows = []
for d in sorted(glob.glob('/verif/seeded/*/')):
    m = json.load(open(d + 'meta.json'))
    name = os.path.basename(d.rstrip('/'))
    s = m.get('summary', '').replace('|', '//').replace('\n', ' ')
    if len(s) > 230:
        s = s[:230] + '...'
    rows.append('| %s | %s | %s | %s | %s |' % (name, s, ', '.join(m['quick_checks_that_catch_it']) or '-',
                ', '.join(m['quick_checks_that_miss_it']) or '-', (m.get('note') or '-').replace('|', '//')))
p = '/verif/DESIGN.md'
t = open(p).read()
head = '| seed | change (agent\'s summary) | caught by (quick) | not caught by | note |\n|---|---|---|---|---|\n'
a = t.index(head)
b = a + len(head)
# end of the table: first line not starting with '|'
lines = t[b:].split('\n')
k = 0
while k < len(lines) and lines[k].startswith('|'):
    k += 1
rest = '\n'.join(lines[k:])
open(p, 'w').write(t[:b] + '\n'.join(rows) + '\n' + rest)
print(len(rows), 'rows')
