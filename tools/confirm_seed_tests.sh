#!/bin/bash
# usage: confirm_seed_tests.sh <seeddir> <n>  -> prints "TESTS <seeddir>/<n> build=<rc> test=<rc> failing=<list>"
seed=$1; n=$2
wt=$(mktemp -d /tmp/tstwt.XXXXXX); rmdir $wt
git -C /repo worktree add -q --detach $wt HEAD || exit 2
trap 'git -C /repo worktree remove --force $wt >/dev/null 2>&1; rm -rf $wt' EXIT
git -C $wt apply $seed/patch$n.diff || { echo "TESTS $seed/$n patch-does-not-apply"; exit 0; }
cd $wt
go build ./... >/dev/null 2>&1; b=$?
out=$(go test -vet=off -count=1 ./... 2>&1); t=$?
echo "TESTS $seed/$n build=$b test=$t failing=$(echo "$out" | grep -E '^(FAIL|---)' | head -3 | tr '\n' ' ')"
