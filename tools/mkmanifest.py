#!/usr/bin/env python3
"""Regenerates /verif/MANIFEST.json from the table below (keeps it valid at all times)."""
import json, os, sys

ROOT = os.path.dirname(os.path.dirname(os.path.abspath(__file__)))

# id -> (engine, technique, level text, level note, design ref)
CLAIMED = {
    "C01": ("batch", "differential PBT: rapid-generated grammars+inputs, real generated parsers vs. reference PEG interpreter",
            "Bounded generated search: rapid draws well-formed grammars (all pure expression kinds, nested) and inputs; every grammar is compiled by the real pigeon under two flag sets and each Parse result (success, consumed prefix, deep value shape) is compared with an independent reference interpreter. Exploration is the right level: the property quantifies over grammars x inputs x flags, which only sampling with a strong oracle reaches.",
            "Trusted: the reference interpreter refpeg (independent of pigeon), the Go toolchain. Bounds: grammars <= ~60 nodes plus, one in ten, big entry rules (66-258 alternatives / items, literals up to 4200 bytes, chains of 66-130 rules); inputs <= 48 bytes plus, one in 150, 300-9000 bytes.", "DESIGN.md 3/C01"),
    "C02": ("batch", "differential PBT: complete code-block event traces of generated parsers vs. reference interpreter",
            "Bounded generated search over grammars with labels/actions/predicates/state blocks at every nesting level and inputs biased to newlines and multi-byte runes; the complete ordered event trace (text, pos, labels, predicate answers) of every real parse is compared with the reference trace.",
            "Trusted: refpeg, the recorder vrt. Known finding KF-C02-STALECTX is tolerated field-wise (exact stale pattern only) and counted.", "DESIGN.md 3/C02"),
    "C05": ("batch", "model-based PBT: state store of generated parsers vs. transactional reference store, observed at every code block",
            "Bounded generated search over grammars with state blocks at arbitrary positions (histories of state changes followed by failures); the store seen by every subsequent code block is compared with a value-semantics transactional model; Cloner values mutated in place included.",
            "Trusted: refpeg's store model, vrt.CList as Cloner.", "DESIGN.md 3/C05"),
    "C11": ("batch", "fault-injection PBT: rapid-drawn fault plans (errors/panics at n-th invocation) vs. reference error model",
            "Bounded generated search over grammars x inputs x fault plans x Recover modes; exact error list, types, Inner identity, positions, rule prefixes, panic containment/propagation compared with the reference.",
            "Trusted: refpeg's error model (positions, innermost rule, de-duplication).", "DESIGN.md 3/C11"),
    "C12": ("batch", "differential PBT: farthest-failure message of generated parsers vs. reference failure-event model",
            "Bounded generated search over grammars without code and failing inputs; the single no-match error (offset, line:col, sorted expected set with inverted entries and EOF) is compared with the reference.",
            "Trusted: refpeg's failure-event accounting. Known finding KF-C12-LRMEMO (left-recursive rule tried again at an offset inside another parity of ! nesting) tolerated for the message only, by an oracle-side predicate, and counted.", "DESIGN.md 3/C12"),
    "C14": ("batch", "differential PBT: throw/recover grammars, generated parsers vs. reference dynamic handler stack",
            "Bounded generated search over grammars with nested recovery operators and throws; success, consumed prefix, value and code-block trace compared with the reference's handler-stack semantics.",
            "Trusted: refpeg's handler stack model. Every fourth grammar is left-recursive with throw / recover; known finding KF-C14-LRMEMO (left-recursive rule tried again at an offset under other recovery operators) excluded by an oracle-side predicate and counted.", "DESIGN.md 3/C14"),
    "C17": ("batch", "differential PBT: invalid UTF-8 byte strings, both AllowInvalidUTF8 modes, vs. reference width-1 U+FFFD decoding",
            "Bounded generated search over byte strings with injected invalid sequences x grammars x both modes; values, action text/pos and the complete invalid-encoding error list compared with the reference.",
            "Trusted: refpeg's advance model. Known finding KF-C17-FFFD-EOF excluded by an oracle-side predicate.", "DESIGN.md 3/C17"),
    "C06": ("batch", "metamorphic PBT: Memoize/Debug/Statistics option combinations vs. default-option run (tied to the reference interpreter); work bounds from Stats.ExprCnt",
            "Bounded generated search over pure-code grammars x inputs x option combinations; same success, value and code-block errors as the default run; with Memoize the evaluated-expression count is bounded by grammar expressions x (len+1) and by the number of distinct (expression, offset) pairs the reference evaluation reaches; no action twice at one offset.",
            "Trusted: refpeg evaluation counting (pinned against Stats.ExprCnt on every plain run). Known finding KF-C06-MEMOLABEL excluded by an oracle-side predicate.", "DESIGN.md 3/C06"),
    "C09": ("batch", "differential PBT: parser generated with -optimize-grammar vs. without, normal-form comparison; unoptimized side tied to the reference interpreter",
            "Bounded generated search over optimizer-bait grammars (shared leaf rules, nested choices/sequences, mergeable literals and classes) x protected entry sets x inputs; same language, consumed prefix, action trace and values up to the regrouping the property allows.",
            "Trusted: the normal form (flatten action-less nesting, drop nils, concatenate byte runs). Grammars whose optimized output does not compile are excluded and counted (C04's subject). Known findings KF-C09-INLINESCOPE and KF-C09-ICFOLD (the optimizer's face of KF-C15-ICLOWER) excluded by predicates over the grammar and the flags.", "DESIGN.md 3/C09"),
    "C10": ("batch", "differential PBT: (X, X + -optimize-parser) parser pairs on the same cases",
            "Bounded generated search over the union of profiles x flag pairs x inputs x fault plans; identical value, error text, panic behaviour and code-block traces incl. state snapshots.",
            "Differential: defects common to both parsers are invisible here (other properties tie each side to the reference).", "DESIGN.md 3/C10"),
    "C13": ("tool", "PBT + coverage-guided fuzzing of main() in-process with a validity predicate; sampled cross-check against the real binary",
            "Bounded generated search over grammar texts (valid, near-valid mutations, arbitrary bytes) x flag combinations; main() must return or exit(n) with the documented diagnostics, never panic, never exit 0 on a rejected grammar, and produce Go on exit 0; thorough tier adds native coverage-guided campaigns.",
            "Trusted: the in-process redirection of os.Args/stdio/exit (1 in 10 cases is cross-checked against the real command).", "DESIGN.md 3/C13"),
    "C15": ("batch", "differential PBT with exhaustive inner loop: every drawn class x all 128 Basic Latin runes, general path vs. table, both vs. the definition",
            "Classes are drawn by rapid; for every drawn class all 128 Basic Latin runes are enumerated (exhaustive for that class) plus non-ASCII runes and invalid bytes; table decision == general decision == definition.",
            "Trusted: refpeg.ClassMember (definition of membership). Known finding KF-C15-ICLOWER excluded per (class, rune) by an oracle-side model of the defect.", "DESIGN.md 3/C15"),
    "C16": ("batch", "PBT over budgets: MaxExpressions(n) relative to the measured need N, diverging grammars, all option combinations; reference run under the same budget",
            "Bounded generated search over grammars (incl. diverging repetitions) x inputs x budgets x options; returns within the watchdog, n>=N identical result, n<N error reported, event/ExprCnt bounds, exact error list vs. the reference under the same budget (non-memoized).",
            "Termination is decided by a generous watchdog (20 s per Parse, confirmed twice in isolation). Known finding KF-C16-MEMOZERO excluded by an oracle-side predicate. Under Recover(false) the report of an exhausted budget is accepted returned or escaping.", "DESIGN.md 3/C16"),
    "C20": ("regen", "differential PBT of the two front-ends on generated grammars of the bootstrap subset (part a) + exhaustive regeneration of all checked-in artifacts (part b)",
            "Part a: rapid-drawn grammars of the bootstrap subset, spelled with drawn quotings/escapes/operators, parsed by bootstrap.Parser and by the generated front-end, ASTs compared structurally. Part b enumerates the finite set of Makefile generation rules completely and compares bytes; the chain fixpoint is checked.",
            "Trusted: the small make-subset interpreter; the Go toolchain.", "DESIGN.md 3/C20"),
    "C04": ("batch", "PBT with a validity predicate on the generated files: gofmt fixpoint, batch compile, go vet, package init, source inspection of methods vs. computed label scopes; round-robin over all 64 flag combinations",
            "Bounded generated search over grammars with adversarial rule/label names (plus one grammar with every accepted Unicode class) x all 64 flag combinations x receiver names; each generated file must be gofmt-formatted, compile, vet clean, initialise, and carry exactly one method per code block with exactly the labels in scope.",
            "Trusted: gspec's label-scope analysis (the documented rule as the builder implements it), the regex-based method extraction. Known findings KF-C04-FUNCNAME / KF-C04-OPTSCOPE are recognised on the failure record and counted.", "DESIGN.md 3/C04"),
    "C07": ("tool", "two-sided PBT with an explicit gap (re-entry witness from the reference interpreter => must reject; acyclic over-approximated first-graph => must accept) plus model-based PBT of accepted grammars' parsers under an expression budget derived from the reference interpreter",
            "Static half: bounded generated search over arbitrary rule-reference graphs with references behind every kind of nullable prefix; in-process builds must fail with the left-recursion error exactly when a concrete re-entry witness exists, and must succeed when no first-cycle exists; undecided grammars are counted, never reported. Run-time half: accepted grammars of five profiles generated by the command under seven flag sets without -support-left-recursion; a parser that needs more than 8N+10000 expression evaluations where the reference needs N, exhausts the stack or hangs is reported as recursing without bound.",
            "Trusted: refpeg's re-entry detection and evaluation count, gspec's textbook nullable/first analysis. Known findings KF-C07-SHORTCIRCUIT / KF-C07-THROW excluded by predicates over the grammar.", "DESIGN.md 3/C07 and 10.1"),
    "C08": ("batch", "model-based PBT: left-recursive grammars evaluated by their denotation in the reference interpreter vs. generated parsers (plain, Memoize, -optimize-parser)",
            "Bounded generated search over nested direct / single-cycle indirect left-recursive grammars x inputs; termination, success, consumed prefix and left-nested value against the denotation; errors/state of the final non-extending attempt not retained (when every LR rule is invoked at most once per offset).",
            "Trusted: refpeg's denotational evaluation of LR rules. Known finding KF-C08-NONLEADER excluded by a predicate over the grammar.", "DESIGN.md 3/C08"),
    "C18": ("batch", "stress PBT under the race detector: rapid-drawn job sets run concurrently from a barrier (cold: before any sequential call) and then alone, each concurrent result vs. its own sequential result",
            "Bounded generated search over stateful/memoizing/throw-recover/utf8/left-recursive grammars x job sets (2-32) x GOMAXPROCS; every concurrent result equals the sequential one and the race detector stays silent. Interleavings are sampled, not enumerated.",
            "Trusted: the Go race detector (no false positives); schedule coverage is whatever the stress reaches (overlap is measured).", "DESIGN.md 3/C18"),
    "C19": ("tool", "metamorphic PBT: K repeated in-process generations (map iteration order re-randomised each time) and repeated runs of the command must be byte-identical",
            "Bounded generated search over grammars with several cycles / leader candidates / mutually nullable rules / optimizer bait x flag sets; 12 repeated builds in one process and 3 runs of the command give identical bytes or the identical diagnostic.",
            "Trusted: Go's randomised map iteration as the source of order variation (12 repeats per case).", "DESIGN.md 3/C19"),
    "C03": ("tool", "round-trip PBT: construction round trip (spelled AST -> front-end -> same AST incl. positions) and print round trip on every accepted text; native fuzzing of the print round trip",
            "Bounded generated search over ASTs of all node kinds x rapid-drawn concrete spellings (layout, comments, terminators, operators, quotings, escapes, class forms, parentheses); the front-end must return exactly the drawn AST with the position of every node's first token; every accepted text (spelled, mutated, repository grammars, fuzz-found) must survive print -> parse unchanged.",
            "Trusted: the speller's reading of the documented syntax (doc.go, grammar/pigeon.peg) and its position bookkeeping; the AST dump hook is a test file compiled with a copy of package main.", "DESIGN.md 3/C03"),
}

NOT_YET = {
}

def main():
    props = [json.loads(l) for l in open(os.path.join(ROOT, "properties.jsonl"))]
    checks = []
    na = []
    for p in props:
        pid = p["id"]
        if pid in CLAIMED:
            eng, tech, text, note, ref = CLAIMED[pid]
            checks.append({
                "property_id": pid,
                "quick_cmd": "./bin/vcheck %s --tier quick" % pid,
                "thorough_cmd": "./bin/vcheck %s --tier thorough" % pid,
                "evidence_file": "/verif/evidence/%s.json" % pid,
                "replay_cmd_template": "./bin/vcheck %s --replay {path}" % pid,
                "engine": eng,
                "level_claimed": {"category": "exploration", "text": text, "design_ref": ref},
                "level_note": note,
                "technique": tech,
            })
        else:
            na.append({"property_id": pid, "reason": NOT_YET.get(pid, "check not implemented yet (work in progress; the technique applies, see DESIGN.md section 3)")})
    m = {
        "version": 1,
        "setup_cmd": "cd /verif/harness && GOFLAGS=-mod=mod GOPROXY=off go build -o /verif/bin/vcheck ./cmd/vcheck",
        "hooks": {
            "guard": "none (no source hooks: the checks build the unmodified pigeon command from /repo's working tree and, for tool-level checks, compile a copy of /repo's package main next to harness test files at check time)",
            "enable": "n/a - nothing to enable; every check rebuilds pigeon and the generated parsers from /repo's current working tree",
            "baseline_off_cmd": "cd /repo && go test -vet=off -count=1 -timeout 25m ./...",
            "source_commits": [],
            "add_only": True,
        },
        "engines": [
            {"name": "batch", "path": "/verif/harness/batch", "serves_properties": [c["property_id"] for c in checks if c["engine"] == "batch"],
             "kind_free_text": "Engine B: rapid-generated grammars -> real pigeon -> generated parser packages + black-box adapters -> one binary; rapid.Check draws inputs/options/plans per grammar, compares with the reference interpreter (refpeg)"},
            {"name": "tool", "path": "/verif/harness/tool", "serves_properties": [c["property_id"] for c in checks if c["engine"] == "tool"],
             "kind_free_text": "Engine T: rapid / native fuzz tests compiled together with a copy of /repo's package main, driving the front-end, optimizer, builder and main() in-process"},
            {"name": "regen", "path": "/verif/harness/regen", "serves_properties": [c["property_id"] for c in checks if c["engine"] == "regen"],
             "kind_free_text": "Engine R: regeneration of the checked-in generated artifacts"},
        ],
        "checks": checks,
        "not_applicable": na,
        "notes": "All checks are property-based tests / fuzzers with explicit oracles (see DESIGN.md). Exit 0 held, 1 violation (VIOLATION line), 2 inconclusive/infra. known_findings.json lists recorded defects; their witnesses live under replays/.",
    }
    json.dump(m, open(os.path.join(ROOT, "MANIFEST.json"), "w"), indent=1)
    print("wrote MANIFEST.json: %d checks, %d not_applicable" % (len(checks), len(na)))

if __name__ == "__main__":
    main()
