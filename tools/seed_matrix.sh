#!/bin/bash
# usage: seed_matrix.sh <VERIF_SEED> [<name pattern>] -> runs every seeded change against the first check
# listed in its meta.json under quick_checks_that_catch_it (normally the check of its own
# property; scratch worktree per change), prints one line per change.
sd=${1:-5}
root=$(cd "$(dirname "$0")/.." && pwd)
cd $root
for d in seeded/${2:-*}/; do
  name=$(basename $d); prop=$(python3 -c "import json;print((json.load(open('$d/meta.json'))['quick_checks_that_catch_it'] or ['none'])[0])")
  if [ "$prop" = none ]; then echo "MATRIX seed=$sd $name no quick check catches it (see meta.json)"; continue; fi
  wt=$(mktemp -d /tmp/mxwt.XXXXXX); rmdir $wt
  git -C /repo worktree add -q --detach $wt HEAD || continue
  if git -C $wt apply $root/$d/patch.diff 2>/dev/null; then
    out=$(VERIF_SEED=$sd ./bin/vcheck $prop --tier quick --repo $wt 2>&1); rc=$?
    echo "MATRIX seed=$sd $name check=$prop rc=$rc violations=$(echo "$out" | grep -c '^VIOLATION')"
    echo "$out" | grep '^VIOLATION' | sed 's/.*replay=//' | while read f; do case "$f" in */v-*.json) rm -f "$f";; esac; done
  else
    echo "MATRIX seed=$sd $name patch-does-not-apply"
  fi
  git -C /repo worktree remove --force $wt >/dev/null 2>&1; rm -rf $wt
done
