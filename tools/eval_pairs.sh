#!/bin/bash
# usage: eval_pairs.sh <dir>:<n>:<prop>[,<prop>...] ...   (demonstrations are not re-run)
root=$(cd "$(dirname "$0")/.." && pwd)
export SEED_DEMO=0
for a in "$@"; do
  IFS=: read d n ps <<< "$a"
  $root/tools/try_seed.sh $d $n ${ps//,/ }
done
echo EVAL DONE
