#!/bin/bash
# usage: sweep.sh <seed> [quick|thorough] [<prop>...]
# Builds bin/vcheck from the harness of the tree this script lives in and runs the given
# checks (default: all twenty) against /repo, one summary line per check. Meant for
# `vp run -- bash tools/sweep.sh 7 quick` (a snapshot of the committed /verif) so that edits
# to the harness do not disturb a running sweep.
root=$(cd "$(dirname "$0")/.." && pwd)
cd $root
seed=${1:-1}; tier=${2:-quick}; shift 2
props=${@:-$(seq -f 'C%02g' 1 20)}
(cd harness && GOFLAGS=-mod=mod GOPROXY=off go build -o $root/bin/vcheck ./cmd/vcheck) || exit 2
mkdir -p work/sweep
for p in $props; do
  s=$(date +%s)
  log=work/sweep/$p.$tier.s$seed.log
  VERIF_SEED=$seed ./bin/vcheck $p --tier $tier > $log 2>&1; rc=$?
  echo "$p seed=$seed tier=$tier exit=$rc $(( $(date +%s)-s ))s violations=$(grep -c '^VIOLATION' $log) known=$(grep -c '^KNOWN-FINDING' $log)"
  if [ $rc != 0 ]; then grep -m3 "VIOLATION\|violation\|inconclusive\|error" $log | cut -c1-400; fi
done
echo SWEEP DONE
