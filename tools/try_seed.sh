#!/bin/bash
# usage: try_seed.sh <seeddir> <n> <prop> [<prop>...]
# Applies <seeddir>/patch<n>.diff to a scratch worktree of /repo's HEAD, confirms the demo
# (fails with the change, passes without), optionally the test suite (SEED_TESTS=1), and runs
# the quick checks of the given properties against it. Nothing is ever applied to /repo.
set -u
seed=$1; n=$2; shift 2
wt=$(mktemp -d /tmp/trywt.XXXXXX)
rmdir $wt
git -C /repo worktree add -q --detach $wt HEAD || exit 2
trap 'git -C /repo worktree remove --force $wt >/dev/null 2>&1; rm -rf $wt' EXIT
if ! git -C $wt apply $seed/patch$n.diff; then echo "SEED $seed/$n: patch does not apply"; exit 2; fi
if [ "${SEED_DEMO:-1}" = 1 ]; then
  bash $seed/demo$n/run.sh /repo >/dev/null 2>&1; a=$?
  bash $seed/demo$n/run.sh $wt >/dev/null 2>&1; b=$?
  echo "SEED $seed/$n: demo on /repo exit=$a, on mutant exit=$b"
fi
if [ "${SEED_TESTS:-0}" = 1 ]; then
  (cd $wt && go build ./... && go test -vet=off -count=1 ./... 2>&1 | grep -v "^ok\|no test files" | head -5; echo "SEED tests exit=${PIPESTATUS[0]}")
fi
root=$(cd "$(dirname "$0")/.." && pwd)
cd $root
for p in "$@"; do
  out=$(VERIF_NOSHRINK=1 ./bin/vcheck $p --tier quick --repo $wt 2>&1)
  rc=$?
  echo "SEED $seed/$n: check $p exit=$rc $(echo "$out" | grep -c '^VIOLATION') violations"
  echo "$out" | grep -m2 "violation\|inconclusive" | cut -c1-300
  # violations found on a mutant are not regressions of the real tree: drop their replay files
  echo "$out" | grep '^VIOLATION' | sed 's/.*replay=//' | while read f; do case "$f" in */v-*.json) rm -f "$f";; esac; done
done
