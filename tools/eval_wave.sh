#!/bin/bash
# usage: eval_wave.sh <dir prefix, e.g. /tmp/s5_> <prop>...
# For every <prefix><prop>/patch{1,2}.diff: demonstration on /repo and on the changed tree, the
# quick check of the property against the changed tree, and the repository's own test suite on
# the changed tree.
root=$(cd "$(dirname "$0")/.." && pwd)
prefix=$1; shift
for p in "$@"; do
  for n in 1 2; do
    [ -f $prefix$p/patch$n.diff ] || continue
    $root/tools/try_seed.sh $prefix$p $n $p
    $root/tools/confirm_seed_tests.sh $prefix$p $n
  done
done
echo EVAL DONE
