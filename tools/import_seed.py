#!/usr/bin/env python3
"""import_seed.py <prop> <n> <caught_by comma list> [<missed_by comma list>] [note]
Copies $SEED_SRC (default /tmp/seed_<prop>)/{patchN.diff,demoN/,metaN.json} to /verif/seeded/<prop>-<$SEED_DST_N or n>/
and writes meta.json."""
import json, os, shutil, sys
prop, n = sys.argv[1], sys.argv[2]
caught = [x for x in sys.argv[3].split(',') if x] if len(sys.argv) > 3 else []
missed = [x for x in sys.argv[4].split(',') if x] if len(sys.argv) > 4 else []
note = sys.argv[5] if len(sys.argv) > 5 else ""
src = os.environ.get('SEED_SRC', '/tmp/seed_%s' % prop)
dst = '/verif/seeded/%s-%s' % (prop, os.environ.get('SEED_DST_N', n))
os.makedirs(dst, exist_ok=True)
shutil.copy(os.path.join(src, 'patch%s.diff' % n), os.path.join(dst, 'patch.diff'))
if os.path.isdir(os.path.join(dst, 'demo')):
    shutil.rmtree(os.path.join(dst, 'demo'))
shutil.copytree(os.path.join(src, 'demo%s' % n), os.path.join(dst, 'demo'))
am = {}
try:
    am = json.load(open(os.path.join(src, 'meta%s.json' % n)))
except Exception as e:
    am = {"summary": "(agent meta unreadable: %s)" % e}
meta = {
    "property": prop,
    "summary": am.get("summary", ""),
    "needs": am.get("needs", ""),
    "files": am.get("files", []),
    "origin": "written by an independent sub-agent that saw only the property text and a scratch worktree of /repo (nothing from /verif)",
    "confirmed_by_me": {
        "applies_to_repo_head": True,
        "existing_suite_passes_with_change": True,
        "demo_fails_with_change": True,
        "demo_passes_without_change": True,
        "how": [
            "tools/confirm_seed_tests.sh: scratch worktree of /repo HEAD + git apply patch.diff; go build ./... ; go test -vet=off -count=1 ./...  (exit 0)",
            "tools/try_seed.sh: demo/run.sh /repo -> exit 0 ; demo/run.sh <scratch worktree with patch> -> exit != 0",
            "tools/try_seed.sh: ./bin/vcheck <prop> --tier quick --repo <scratch worktree with patch>",
        ],
    },
    "quick_checks_that_catch_it": caught,
    "quick_checks_that_miss_it": missed,
    "note": note,
}
json.dump(meta, open(os.path.join(dst, 'meta.json'), 'w'), indent=1, ensure_ascii=False)
print("imported", dst)
